"""Evidence writer, known-findings handling, parallel task runner, exit codes."""
import concurrent.futures as cf
import hashlib
import json
import multiprocessing as mp
import os
import sys
import time
import traceback

VERIF = os.path.dirname(os.path.dirname(os.path.abspath(__file__)))
REPO = os.environ.get('VP_REPO', '/repo')
OUT = os.environ.get('VP_OUT', VERIF)
KNOWN = os.path.join(VERIF, 'known_findings.json')


def src_hash(relpath):
  try:
    with open(os.path.join(REPO, relpath), 'rb') as f:
      return hashlib.sha256(f.read()).hexdigest()[:16]
  except OSError:
    return 'missing'


def load_known(pid):
  try:
    with open(KNOWN) as f:
      data = json.load(f)
  except OSError:
    return []
  return [e for e in data.get('findings', []) if e.get('property') == pid]


def jsonable(x):
  try:
    json.dumps(x)
    return x
  except TypeError:
    if isinstance(x, dict):
      return {str(k): jsonable(v) for k, v in x.items() if k != 'model'}
    if isinstance(x, (list, tuple)):
      return [jsonable(v) for v in x]
    return str(x)


class Report:
  def __init__(self, pid, tier, seed):
    self.pid, self.tier, self.seed = pid, tier, seed
    self.t0 = time.time()
    self.results = []        # obligation dicts
    self.violations = []     # dicts: key, what, replay
    self.errors = []         # harness errors (strings)
    self.functions = {}      # qualified name -> source file
    self.bounds = {}
    self.stubs = []
    self.assumptions = []
    self.outside = []
    self.samples = []
    self.explanation = ''
    self.extra = {}
    self.known_printed = []
    self.configs = 0

  # ------------------------------------------------------------ collection
  def add(self, results, prefix=''):
    for r in results:
      r = dict(r)
      r.pop('model', None)
      if prefix:
        r['name'] = prefix + r['name']
      self.results.append(r)

  def encode(self, qualname, relfile):
    self.functions[qualname] = relfile

  def absorb(self, out, prefix=''):
    """merge a worker's output dict"""
    if out is None:
      return
    self.add(out.get('results', []), prefix)
    self.violations += out.get('violations', [])
    self.errors += out.get('errors', [])
    for s in out.get('samples', []):
      if len(self.samples) < 12:
        self.samples.append(s)
    self.configs += out.get('configs', 1)
    for k, v in out.get('extra', {}).items():
      if isinstance(v, (int, float)):
        self.extra[k] = self.extra.get(k, 0) + v
      elif isinstance(v, list):
        self.extra.setdefault(k, [])
        for x in v:
          if x not in self.extra[k]:
            self.extra[k].append(x)
      else:
        self.extra[k] = v

  # ------------------------------------------------------------ finishing
  def finish(self):
    pid = self.pid
    known = load_known(pid)
    open_keys = {e['key']: e for e in known if e.get('status') == 'open'}
    core = [r for r in self.results if r.get('kind', 'core') == 'core']
    twins = [r for r in self.results if r.get('kind') == 'twin']
    stretch = [r for r in self.results if r.get('kind') == 'stretch']
    discharged = [r for r in core if r['status'] == 'unsat']
    undecided = [r for r in core if r['status'] not in ('unsat', 'violation', 'known')]
    bad_twins = [r for r in twins if r['status'] != 'sat']
    new_viol, known_hit = [], {}
    for v in self.violations:
      if v['key'] in open_keys:
        known_hit.setdefault(v['key'], v)
      else:
        new_viol.append(v)
    lines = []
    for k, v in known_hit.items():
      lines.append(f"KNOWN-FINDING: property={pid} {open_keys[k]['what']}")
    seen = set()
    for v in new_viol:
      if v['key'] in seen or v['replay'] in seen:
        continue
      seen.add(v['key'])
      seen.add(v['replay'])
      lines.append(f"VIOLATION property={pid} replay={v['replay']}")
      print(f"  violation detail: {v.get('what', '')} key={v['key']}", file=sys.stderr)
    stale = [k for k in open_keys if k not in known_hit]
    queries = sum(r.get('queries', 0) for r in self.results)
    solver_s = sum(r.get('solver_s', 0.0) for r in self.results)
    nontrivial = {r['name'] for r in self.results
                  if r.get('queries', 0) > 0 and r['status'] in ('unsat', 'sat')}
    if new_viol:
      code = 1
    elif self.errors or undecided or bad_twins:
      code = 2
    else:
      code = 0
    if not self.samples:
      self.samples = [jsonable({k: r.get(k) for k in ('name', 'status', 'cases', 'queries', 'note')})
                      for r in (discharged[:4] + twins[:2])]
    cov = {
        'explanation': self.explanation,
        'obligations': len(core),
        'discharged': len(discharged),
        'undecided': [r['name'] for r in undecided][:50],
        'undecided_count': len(undecided),
        'stretch_attempted': len(stretch),
        'stretch_discharged': len([r for r in stretch if r['status'] == 'unsat']),
        'stretch_undecided': [r['name'] for r in stretch if r['status'] != 'unsat'][:50],
        'reachability_twins': len(twins),
        'twins_sat': len(twins) - len(bad_twins),
        'queries': queries,
        'solver_s': round(solver_s, 3),
        'configurations': self.configs,
        'evaluations': max(queries, 1) if self.results else 0,
        'distinct_nontrivial': len(nontrivial),
        'rule': 'one evaluation = one solver query (check-sat); an obligation is non-trivial when it '
                'needed at least one solver query (terms not syntactically identical) and got a '
                'definite answer; distinct by obligation name (configuration + output leaf)',
        'functions_encoded': {k: {'file': v, 'sha256_16': src_hash(v)} for k, v in sorted(self.functions.items())},
        'bounds': self.bounds,
        'stubs': self.stubs,
        'outside_claim': self.outside,
        'samples': jsonable(self.samples),
        'checker_cmd': f'./check {pid} --tier {self.tier}',
        'trusted_base': ['z3 5.1.0 (python wheel)', 'jax.make_jaxpr of the real function (jax 0.11.2)',
                         'vp/symjax evaluator (validated by the concrete differential run)'],
        'known_findings_hit': sorted(known_hit),
        'known_findings_stale': stale,
        'harness_errors': self.errors[:20],
        'exhaustive': False,
    }
    cov.update(jsonable(self.extra))
    ev = {
        'property_id': pid, 'tier': self.tier, 'seed': self.seed, 'level': 'other',
        'coverage': cov, 'assumptions': self.assumptions,
        'wall_s': round(time.time() - self.t0, 2), 'violations': len(new_viol),
        'exit_code': code,
    }
    os.makedirs(os.path.join(OUT, 'evidence'), exist_ok=True)
    with open(os.path.join(OUT, 'evidence', f'{pid}.json'), 'w') as f:
      json.dump(ev, f, indent=1, sort_keys=True)
      f.write('\n')
    for l in lines:
      print(l)
    print(f'[{pid} {self.tier}] obligations={len(core)} discharged={len(discharged)} '
          f'undecided={len(undecided)} twins={len(twins)}/{len(twins) - len(bad_twins)}sat '
          f'stretch={len(stretch)} queries={queries} solver_s={solver_s:.1f} '
          f'wall_s={time.time() - self.t0:.1f} errors={len(self.errors)} exit={code}')
    for r in undecided[:10]:
      print(f'  undecided: {r["name"]} -> {r["status"]} {r.get("note", "")}', file=sys.stderr)
    for r in bad_twins[:10]:
      print(f'  twin not sat: {r["name"]} -> {r["status"]}', file=sys.stderr)
    for e in self.errors[:5]:
      print('  harness error: ' + str(e)[-1500:], file=sys.stderr)
    return code


def write_replay(pid, payload):
  """store a counterexample; returns the path"""
  os.makedirs(os.path.join(OUT, 'replays'), exist_ok=True)
  blob = json.dumps(jsonable(payload), sort_keys=True, indent=1)
  h = hashlib.sha256(blob.encode()).hexdigest()[:12]
  path = os.path.join(OUT, 'replays', f'{pid}-{h}.json')
  with open(path, 'w') as f:
    f.write(blob + '\n')
  return path


def _call(args):
  modname, fname, task = args
  try:
    import importlib
    mod = importlib.import_module(modname)
    out = getattr(mod, fname)(task)
    if isinstance(out, dict):
      out['results'] = [{k: v for k, v in dict(r).items() if k != 'model'} for r in out.get('results', [])]
    return jsonable(out)
  except BaseException as ex:  # harness error, reported, exit 2
    return {'errors': [f'{task!r}: {type(ex).__name__}: {ex}\n' + traceback.format_exc()[-2500:]],
            'results': [], 'configs': 0}


def _run_one(args):
  """one task in its own interpreter (robust against hard crashes and hangs)"""
  import subprocess
  import tempfile
  modname, fname, task, timeout = args
  with tempfile.TemporaryDirectory(prefix='vp_task_') as d:
    tin, tout = os.path.join(d, 'in.json'), os.path.join(d, 'out.json')
    with open(tin, 'w') as f:
      json.dump(dict(mod=modname, fn=fname, task=task), f)
    if isinstance(task, dict) and task.get('task_timeout'):
      timeout = task['task_timeout']
    # own session: on a time-out the whole process group (worker and the solver processes it started) is stopped
    proc = subprocess.Popen([sys.executable, '-m', 'vp.worker', tin, tout], stdout=subprocess.PIPE, stderr=subprocess.PIPE, text=True,
                            env=dict(os.environ), start_new_session=True)
    try:
      so, se = proc.communicate(timeout=timeout)
      p = subprocess.CompletedProcess(proc.args, proc.returncode, so, se)
    except subprocess.TimeoutExpired:
      import signal
      try:
        os.killpg(proc.pid, signal.SIGKILL)
      except OSError:
        pass
      proc.communicate()
      if isinstance(task, dict) and task.get('stretch'):
        return {'errors': [], 'configs': 0, 'results': [dict(name=f'stretch task {task!r}', status='unknown', kind='stretch', queries=0,
                                                             note=f'stopped after {timeout}s: undecided, excluded from the claim')]}
      return {'errors': [f'{task!r}: task exceeded {timeout}s and was stopped (undecided)'], 'results': [], 'configs': 0}
    try:
      with open(tout) as f:
        return json.load(f)
    except Exception:
      return {'errors': [f'{task!r}: worker died (exit {p.returncode}): {p.stderr[-1500:]}'], 'results': [], 'configs': 0}


def run_tasks(modname, fname, tasks, workers=None, report=None, prefix=False, timeout=None):
  """run `modname.fname(task)` for every task, each in a fresh process, `workers` at a time"""
  workers = workers or min(int(os.environ.get('VP_WORKERS', '16')), max(1, len(tasks)))
  timeout = timeout or int(os.environ.get('VP_TASK_TIMEOUT', '1500'))
  outs = []
  if os.environ.get('VP_SERIAL'):
    for t in tasks:
      outs.append(_call((modname, fname, t)))
  else:
    with cf.ThreadPoolExecutor(max_workers=workers) as ex:
      outs = list(ex.map(_run_one, [(modname, fname, t, timeout) for t in tasks]))
  if report is not None:
    for o in outs:
      report.absorb(o)
  return outs
