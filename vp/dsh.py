"""Distributed-Shampoo harness helpers shared by C02/C03/C04/C05/C08/C13."""
import contextlib
import functools
import io
import numpy as np
import jax
import jax.numpy as jnp

from .symjax import stubs
from .harness import Traced

_ORIG = {}


def ds_module():
  from precondition import distributed_shampoo as ds
  return ds


def install_root_stub():
  """Replace ds.matrix_inverse_pth_root (in this process only) by the `root` stub.

  The stub's outputs are uninterpreted functions of the unpadded statistics block and
  the exponent (see symjax.stubs.eval_root).  When executed concretely (differential
  runs) it calls the real routine."""
  ds = ds_module()
  if 'root' in _ORIG:
    return ds
  orig = ds.matrix_inverse_pth_root
  _ORIG['root'] = orig

  def stub_root(matrix, p, num_iters=100, ridge_epsilon=1e-6, error_tolerance=1e-6,
                precision=None, relative_matrix_epsilon=True, lobpcg_topk_precondition=0,
                lobpcg_max_iter=0, padding_start=None, prev=None, eigh=False):
    n = matrix.shape[0]
    if padding_start is None:
      padding_start = n
    static = (('ridge_epsilon', float(ridge_epsilon)), ('relative_matrix_epsilon', bool(relative_matrix_epsilon)),
              ('eigh', bool(eigh)))
    dt = matrix.dtype
    outs = stubs.stub_call(
        'root', [((n, n), dt), ((), dt), ((), dt), ((), dt), ((), dt), ((), dt)],
        matrix, jnp.asarray(p, jnp.int32), jnp.asarray(padding_start, jnp.int32), static=static)
    root, err, iters, ratio, maxev, retries = outs
    m = ds.TrainingMetrics(inverse_pth_root_errors=err)
    return root, m

  def concrete_root(matrix, p, padding_start, static=()):
    kw = dict(static)
    root, m = orig(matrix, p, ridge_epsilon=kw.get('ridge_epsilon', 1e-6),
                   relative_matrix_epsilon=kw.get('relative_matrix_epsilon', True),
                   padding_start=padding_start, eigh=kw.get('eigh', False))
    z = jnp.zeros((), matrix.dtype)
    return (root.astype(matrix.dtype), jnp.asarray(m.inverse_pth_root_errors, matrix.dtype), z, z, z, z)

  stubs.CONCRETE_IMPL['root'] = concrete_root
  ds.matrix_inverse_pth_root = stub_root
  return ds


def uninstall_root_stub():
  ds = ds_module()
  if 'root' in _ORIG:
    ds.matrix_inverse_pth_root = _ORIG.pop('root')


def eval_root6(self, ins, params):
  r = stubs.eval_root(self, ins, params)
  from fractions import Fraction
  z = np.array(Fraction(0), dtype=object)
  return r + [z, z, z, z]


stubs.STUB_EVAL['root'] = eval_root6

GRAFTS = ['SGD', 'ADAGRAD', 'RMSPROP', 'RMSPROP_NORMALIZED', 'SQRT_N', 'ADAGRAD_NORMALIZED', 'NONE']

DEFAULTS = dict(
    lr=0.125, lr_schedule=False, block_size=4, beta1=0.75, beta2=0.875, diagonal_epsilon=2.0 ** -30,
    matrix_epsilon=2.0 ** -20, weight_decay=0.0, start=2, q=1, s=1, merge=False, graft='RMSPROP',
    nesterov=True, exponent_override=0, thr=0.125, moving_average=False, skip_dim_gt=4096,
    merge_block=4096, ptype='ALL', skip_rank_lt=1, decoupled_lr=True, decoupled_wd=False, eigh=False,
    batch_axis_name=None, memory_reduction=False, compression_rank=0, metrics=True,
)


def lr_schedule(t):
  """a traced learning-rate schedule with exactly representable values: 1/8 / (1 + t)"""
  return 0.125 / (1.0 + jnp.asarray(t, jnp.float32))


def make_opt(cfg, **over):
  ds = ds_module()
  c = dict(DEFAULTS)
  c.update(cfg)
  c.update(over)
  lr = lr_schedule if c['lr_schedule'] else c['lr']
  return ds.distributed_shampoo(
      lr, c['block_size'], beta1=c['beta1'], beta2=c['beta2'], diagonal_epsilon=c['diagonal_epsilon'],
      matrix_epsilon=c['matrix_epsilon'], weight_decay=c['weight_decay'],
      start_preconditioning_step=c['start'], preconditioning_compute_steps=c['q'],
      statistics_compute_steps=c['s'], best_effort_shape_interpretation=c['merge'],
      graft_type=getattr(ds.GraftingType, c['graft']), nesterov=c['nesterov'],
      exponent_override=c['exponent_override'], batch_axis_name=c['batch_axis_name'],
      best_effort_memory_usage_reduction=c['memory_reduction'],
      inverse_failure_threshold=c['thr'], moving_average_for_momentum=c['moving_average'],
      skip_preconditioning_dim_size_gt=c['skip_dim_gt'], merge_small_dims_block_size=c['merge_block'],
      precondtioner_type=getattr(ds.PreconditionerType, c['ptype']), compression_rank=c['compression_rank'],
      skip_preconditioning_rank_lt=c['skip_rank_lt'], decoupled_learning_rate=c['decoupled_lr'],
      decoupled_weight_decay=c['decoupled_wd'], generate_training_metrics=c['metrics'], eigh=c['eigh'],
      **{k: c[k] for k in ('frequent_directions', 'reuse_preconditioner', 'average_grad', 'reset_preconditioner',
                            'decay_preconditioning_compute_steps', 'end_preconditioning_compute_steps',
                            'clip_by_scaled_gradient_norm') if k in c})


def full_cfg(cfg):
  c = dict(DEFAULTS)
  c.update(cfg)
  return c


class RealCodeError(Exception):
  """the real code raised while being traced on an in-scope input: a finding candidate"""

  def __init__(self, exc, where):
    super().__init__(f'{where}: {type(exc).__name__}: {exc}')
    self.exc, self.where = exc, where


def trace_update(opt, params, axis_env=None):
  buf = io.StringIO()
  try:
    with contextlib.redirect_stdout(buf):
      state = opt.init(params)
  except Exception as ex:
    raise RealCodeError(ex, 'init') from ex
  try:
    tr = Traced(lambda g, s, p: opt.update(g, s, p), (params, state, params), axis_env=axis_env, name='a',
                out_like=(params, state) if axis_env else None)
  except Exception as ex:
    raise RealCodeError(ex, 'update') from ex
  return tr, state


def concrete_crash(cfg, shapes, steps=2, seed=0):
  """run the real, unstubbed optimizer concretely; returns 'Type: msg' if it raises"""
  uninstall = 'root' in _ORIG
  if uninstall:
    uninstall_root_stub()
  try:
    opt = make_opt(cfg)
    rng = np.random.RandomState(seed)
    params = {f'p{i}': jnp.asarray(rng.randn(*sh), jnp.float32) for i, sh in enumerate(shapes)}
    try:
      state = opt.init(params)
      for _ in range(steps):
        g = {k: jnp.asarray(rng.randn(*v.shape), jnp.float32) for k, v in params.items()}
        _, state = opt.update(g, state, params)
    except Exception as ex:
      return f'{type(ex).__name__}: {str(ex)[:200]}'
    return None
  finally:
    if uninstall:
      install_root_stub()


def trace_sharded(cfg, params, D):
  """sharded (pjit) variant traced under a one-device mesh with real PartitionSpecs;
  the declared num_devices_for_pjit = D is independent of the mesh"""
  import jax
  from jax.sharding import Mesh, PartitionSpec as PS
  ds = ds_module()
  c = full_cfg(cfg)
  mesh = Mesh(np.array(jax.devices()[:1]), ('x',))
  lr = lr_schedule if c['lr_schedule'] else c['lr']
  opt = ds.distributed_shampoo(
      lr, c['block_size'], beta1=c['beta1'], beta2=c['beta2'], diagonal_epsilon=c['diagonal_epsilon'],
      matrix_epsilon=c['matrix_epsilon'], weight_decay=c['weight_decay'], start_preconditioning_step=c['start'],
      preconditioning_compute_steps=c['q'], statistics_compute_steps=c['s'],
      best_effort_shape_interpretation=c['merge'], graft_type=getattr(ds.GraftingType, c['graft']), nesterov=c['nesterov'],
      exponent_override=c['exponent_override'], inverse_failure_threshold=c['thr'],
      moving_average_for_momentum=c['moving_average'], skip_preconditioning_dim_size_gt=c['skip_dim_gt'],
      merge_small_dims_block_size=c['merge_block'], skip_preconditioning_rank_lt=c['skip_rank_lt'],
      decoupled_learning_rate=c['decoupled_lr'], decoupled_weight_decay=c['decoupled_wd'],
      statistics_partition_spec=PS('x', None, None), preconditioner_partition_spec=PS('x', None, None),
      num_devices_for_pjit=D, shard_optimizer_states=True, generate_training_metrics=c['metrics'])
  with mesh:
    fns = opt.init(params)
    state = fns.init_fn(params)
    try:
      tr = Traced(lambda g, s, p: opt.update(g, s, p), (params, state, params), name='a')
    except Exception as ex:
      raise RealCodeError(ex, 'sharded update') from ex
  return tr, state, opt, mesh


def zeros_tree(shapes):
  return {f'p{i}': jnp.zeros(tuple(sh), jnp.float32) for i, sh in enumerate(shapes)}
