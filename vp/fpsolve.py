"""QF_FP obligations: portfolio of cvc5 (wheel, via vp.cvc5run) and z3 (CLI of the wheel, z3-new).

The query is exported once as SMT-LIB2; both solvers run as subprocesses, the first
definite answer wins; any `(error` makes that solver's answer `unknown`.
"""
import os
import re
import shutil
import struct
import subprocess
import sys
import tempfile
import time
import z3


def to_smt2(assertions, logic='QF_BVFP'):
  s = z3.Solver()
  s.add(assertions)
  return f'(set-logic {logic})\n' + s.to_smt2()


_FP = re.compile(r'\(fp\s+#b([01])\s+#[bx]([0-9a-fA-F]+)\s+#[bx]([0-9a-fA-F]+)\)')


def parse_fp(txt):
  """SMT-LIB float32 value -> python float"""
  txt = txt.strip()
  if 'NaN' in txt:
    return float('nan')
  if '+oo' in txt:
    return float('inf')
  if '-oo' in txt:
    return float('-inf')
  if '+zero' in txt:
    return 0.0
  if '-zero' in txt:
    return -0.0
  m = _FP.search(txt)
  if not m:
    return None
  sgn = int(m.group(1))
  def bits(tok, raw, width):
    return int(raw, 16) if f'#x{raw}' in tok else int(raw, 2)
  full = m.group(0)
  parts = full.split()
  e_raw, m_raw = parts[2], parts[3].rstrip(')')
  e = int(e_raw[2:], 16 if e_raw[1] == 'x' else 2)
  mm = int(m_raw[2:], 16 if m_raw[1] == 'x' else 2)
  word = (sgn << 31) | (e << 23) | mm
  return struct.unpack('>f', struct.pack('>I', word))[0]


def check_fp(assertions, names=(), timeout_s=300, solvers=('cvc5', 'z3')):
  """returns dict(status, model {name: float}, solver, wall_s)"""
  return check_text(to_smt2(assertions), names, timeout_s, solvers)


def check_text(text, names=(), timeout_s=300, solvers=('cvc5', 'z3')):
  """same, for an already rendered SMT-LIB2 text (safe to call from worker threads: no z3 API use)"""
  t0 = time.time()
  d = tempfile.mkdtemp(prefix='vp_fp_')
  try:
    path = os.path.join(d, 'q.smt2')
    with open(path, 'w') as f:
      f.write(text)
    procs = {}
    if 'cvc5' in solvers:
      procs['cvc5'] = subprocess.Popen([sys.executable, '-m', 'vp.cvc5run', path, str(int(timeout_s * 1000))] + list(names),
                                       stdout=subprocess.PIPE, stderr=subprocess.PIPE, text=True, env=dict(os.environ))
    z3bin = shutil.which('z3-new') or shutil.which('z3')
    if 'z3' in solvers and z3bin:
      p2 = os.path.join(d, 'q_z3.smt2')
      with open(p2, 'w') as f:
        f.write(text + ('\n(get-value (' + ' '.join(names) + '))\n' if names else ''))
      procs['z3'] = subprocess.Popen([z3bin, '-smt2', f'-T:{int(timeout_s)}', p2], stdout=subprocess.PIPE, stderr=subprocess.PIPE, text=True)
    result = dict(status='unknown', model={}, solver=None)
    deadline = t0 + timeout_s + 5
    pending = dict(procs)
    while pending and time.time() < deadline:
      for nm, p in list(pending.items()):
        rc = p.poll()
        if rc is None:
          continue
        out = p.stdout.read()
        pending.pop(nm)
        first = out.strip().splitlines()[0].strip() if out.strip() else 'unknown'
        if '(error' in out and first not in ('sat',):
          first = 'unknown'
        if first in ('sat', 'unsat'):
          model = {}
          if first == 'sat':
            if nm == 'cvc5':
              for line in out.strip().splitlines()[1:]:
                k, _, v = line.partition(' ')
                fv = parse_fp(v)
                if fv is not None:
                  model[k] = fv
            else:
              body = out[out.index('sat') + 3:]
              for n_ in names:
                mt = re.search(r'\(\s*' + re.escape(n_) + r'\s+((?:\(fp[^)]*\))|(?:\(_ [^)]*\)))', body)
                if mt:
                  fv = parse_fp(mt.group(1))
                  if fv is not None:
                    model[n_] = fv
          result = dict(status=first, model=model, solver=nm)
          pending_kill = list(pending.values())
          for q in pending_kill:
            q.kill()
          pending = {}
          break
      time.sleep(0.05)
    for q in pending.values():
      q.kill()
    result['wall_s'] = round(time.time() - t0, 2)
    return result
  finally:
    shutil.rmtree(d, ignore_errors=True)
