"""FP32-domain evaluator (bit-precise float32, NaN/Inf, optional flush-to-zero)."""
import numpy as np
import z3

from . import fp as FP
from . import interp as IN
from .interp import Interp, Ctx, toobj, vec, is_sym, Unsupported
from . import stubs

FPS = z3.Float32()
POWF = z3.Function('powf', FPS, FPS, FPS)
EXPF = z3.Function('expf', FPS, FPS)
LOGF = z3.Function('logf', FPS, FPS)


class FPInterp(Interp):
  D = FP

  def __init__(self, ctx=None, ftz=False, div_rcp=True):
    super().__init__(ctx)
    self.ftz = ftz
    self.depth = 0
    # XLA:CPU lowers a float division whose divisor is a constant or a broadcast (one divisor element
    # shared by several result elements) as a multiplication by the reciprocal (observed: eager and jit;
    # 1 ulp different from IEEE division).  Such a division is modelled as EITHER lowering, chosen by a
    # free Boolean per division equation (collected in ctx.div_choices); same-shape divisions are IEEE.
    self.div_rcp = div_rcp
    if not hasattr(self.ctx, 'div_choices'):
      self.ctx.div_choices = []

  def p_div(self, e, i):
    if np.issubdtype(e.outvars[0].aval.dtype, np.integer) or not self.div_rcp:
      return super().p_div(e, i)
    a, b = toobj(i[0]), toobj(i[1])
    belems = list(b.reshape(-1))
    n_out = int(np.prod(e.outvars[0].aval.shape)) if e.outvars[0].aval.shape else 1
    const = not any(FP.is_z3(x) for x in belems)
    if not const:
      ids = {x.get_id() if FP.is_z3(x) else ('c', float(x)) for x in belems}
      shared = len(ids) < n_out or len(belems) < n_out
    if not (const or shared) or not any(FP.is_z3(x) for x in list(a.reshape(-1)) + belems):
      return super().p_div(e, i)
    ch = z3.Bool(f'div_rcp_{len(self.ctx.div_choices)}')
    self.ctx.div_choices.append(ch)
    one = np.float32(1.0)
    return vec(lambda x, y: FP.s_if(ch, FP.s_mul(x, FP.s_div(one, y)), FP.s_div(x, y)), *i)

  def eval(self, jaxpr, consts, *args):
    outer = self.depth == 0
    if outer:
      saved = (IN._LIFT[0], FP.FTZ)
      IN._LIFT[0] = FP.lift
      FP.FTZ = self.ftz
    self.depth += 1
    try:
      return super().eval(jaxpr, consts, *args)
    finally:
      self.depth -= 1
      if outer:
        IN._LIFT[0], FP.FTZ = saved

  def zero(self, dtype):
    return 0 if np.issubdtype(dtype, np.integer) else np.float32(0.0)

  def sqrt(self, a):
    return FP.s_sqrt(a)

  def p_rsqrt(self, e, i):
    return vec(lambda a: FP.s_div(np.float32(1.0), FP.s_sqrt(a)), *i)

  def pow(self, a, b):
    vb = b if not FP.is_z3(b) else None
    if vb is not None and float(vb) == int(float(vb)) and abs(int(float(vb))) <= 8:
      return FP.s_ipow(a, int(float(vb)))
    return POWF(FP.fpv(a), FP.fpv(b))

  def p_exp(self, e, i):
    return vec(lambda a: EXPF(FP.fpv(a)), *i)

  def p_log(self, e, i):
    return vec(lambda a: LOGF(FP.fpv(a)), *i)

  def p_is_finite(self, e, i):
    return vec(FP.s_isfinite, *i)

  def p_rem(self, e, i):
    if np.issubdtype(e.outvars[0].aval.dtype, np.integer):
      return vec(FP.s_irem, *i)
    raise Unsupported('float rem in FP32 domain')

  def convert(self, a, src, dst):
    isf = lambda d: np.issubdtype(d, np.floating)
    isi = lambda d: np.issubdtype(d, np.integer)
    isb = lambda d: np.issubdtype(d, np.bool_)
    if isb(dst):
      return a if isb(src) else FP.s_ne(a, np.float32(0.0) if isf(src) else 0)
    if isb(src):
      if isi(dst):
        return FP.s_if(a, 1, 0) if FP.is_z3(a) else int(a)
      return FP.s_if(a, np.float32(1.0), np.float32(0.0)) if FP.is_z3(a) else np.float32(a)
    if isi(src) and isf(dst):
      if FP.is_fp(a):
        return a          # integral-valued float standing for a narrow integer (see below)
      return FP.fpv(a) if FP.is_z3(a) else np.float32(a)
    if isf(src) and isi(dst):
      if not FP.is_z3(a):
        return int(a)
      # narrow integers produced from floats stay integral-valued FP terms; exact as long as
      # the value is in range (an explicit obligation of the harness) -- never wraps here
      return z3.fpRoundToIntegral(z3.RTZ(), a)
    if isf(src) and isf(dst):
      if np.dtype(dst).itemsize < 4:
        raise Unsupported('narrow float conversion in FP32 domain')
      return a
    return a

  def p_symstub(self, e, ins):
    """stub outputs: unconstrained float32 (any bit pattern, NaN and Inf included)"""
    name = e.params['name']
    nb = e.params['nbatch']
    out_shapes = e.params['out_shapes']
    bshape = toobj(ins[0]).shape[:nb]
    k = len(self.ctx.stub_log)
    outs = []
    for oi, (s, d) in enumerate(out_shapes):
      o = np.empty(tuple(bshape) + tuple(s), dtype=object)
      for idx in np.ndindex(o.shape):
        nm = f'{name}{k}_o{oi}' + ''.join(f'_{j}' for j in idx)
        o[idx] = z3.FP(nm, FPS) if np.issubdtype(d, np.floating) else z3.Int(nm)
      outs.append(o)
    self.ctx.stub_log.append((name, tuple(bshape), outs, [toobj(a) for a in ins]))
    return outs


def fp_sym_like(name, arr):
  arr = np.asarray(arr)
  out = np.empty(arr.shape, dtype=object)
  for idx in np.ndindex(arr.shape):
    nm = name + ''.join(f'_{k}' for k in idx)
    if np.issubdtype(arr.dtype, np.floating):
      out[idx] = z3.FP(nm, FPS)
    elif np.issubdtype(arr.dtype, np.bool_):
      out[idx] = z3.Bool(nm)
    else:
      out[idx] = z3.Int(nm)
  return out
