"""E1: evaluate the jaxpr of real /repo code over SMT terms (Real domain).

Values are numpy arrays.  dtype=object arrays hold z3 terms / exact python numbers;
ordinary arrays are concrete.  An equation whose inputs are all concrete is
executed by binding the real JAX primitive (constant folding with JAX's own
semantics).  Data-movement primitives are executed on integer labels by the real
primitive and mapped back ("index trick"), so no indexing semantics is
re-implemented here.
"""
from fractions import Fraction
import contextlib
import io
import math
import numpy as np
import z3
import jax
import jax.numpy as jnp
from jax.extend import core as jcore

from . import real as R
from .real import is_z3, val, lift, tolit


class Unsupported(Exception):
  """A primitive / situation the evaluator does not model: harness error (exit 2)."""


class Ctx:
  """Per-evaluation context: fresh names, side facts, stub memo tables."""

  def __init__(self, unroll=2, name=''):
    self.name = name
    self.n = 0
    self.unroll = unroll
    self.unwind = []        # unwinding obligations (must be proved False-able: not cond)
    self.sqrt_terms = {}    # id -> (y, arg)  instantiate axioms only when mentioned
    self.pow_terms = {}     # id -> (y, base, exponent)
    self.memo = {}          # stub memo tables
    self.decomps = []       # records of eigh/svd/qr stub applications
    self.side = []          # contract facts added by stubs (cheap contracts)
    self.stub_log = []      # (name, info) for evidence
    self.eigh_contract = 'cheap'
    self.witness = None     # optional witnessed decomposition provider

  def fresh(self, pfx, sort=None):
    self.n += 1
    return z3.Const(f'{pfx}!{self.name}{self.n}', sort or z3.RealSort())


def is_sym(a):
  return isinstance(a, np.ndarray) and a.dtype == object


_LIFT = [lift]    # scalar lifting of the active domain (swapped by FPInterp while it evaluates)


def toobj(a):
  if is_sym(a):
    return a
  a = np.asarray(a)
  out = np.empty(a.shape, dtype=object)
  flat = out.reshape(-1)
  lf = _LIFT[0]
  for k, x in enumerate(a.reshape(-1)):
    flat[k] = lf(x)
  return out


def vec(f, *arrs):
  arrs = [toobj(a) for a in arrs]
  arrs = np.broadcast_arrays(*arrs)
  out = np.empty(arrs[0].shape, dtype=object)
  for idx in np.ndindex(out.shape):
    out[idx] = f(*[a[idx] for a in arrs])
  return out


def sym_like(name, arr, pool=None):
  """array of fresh named variables with the sorts of arr's dtype"""
  arr = np.asarray(arr)
  out = np.empty(arr.shape, dtype=object)
  for idx in np.ndindex(arr.shape):
    nm = name + ''.join(f'_{k}' for k in idx)
    if np.issubdtype(arr.dtype, np.floating):
      out[idx] = z3.Real(nm)
    elif np.issubdtype(arr.dtype, np.bool_):
      out[idx] = z3.Bool(nm)
    else:
      out[idx] = z3.Int(nm)
  return out


MOVEMENT = {
    'reshape', 'squeeze', 'expand_dims', 'broadcast_in_dim', 'transpose', 'slice',
    'concatenate', 'pad', 'split', 'stack', 'rev', 'dynamic_slice',
    'dynamic_update_slice', 'gather', 'scatter', 'copy_p', 'copy',
}
NO_CONCRETE_BIND = {
    'while', 'cond', 'jit', 'pjit', 'closed_call', 'core_call', 'remat', 'remat2', 'checkpoint',
    'custom_jvp_call', 'custom_vjp_call', 'custom_vjp_call_jaxpr', 'axis_index',
    'all_gather', 'psum', 'pmax', 'pmin', 'symstub', 'scan', 'sharding_constraint',
    'eigh', 'svd', 'qr', 'mesh_cast', 'reshard', 'psum_invariant', 'pvary', 'pbroadcast', 'all_gather_invariant',
}


class Interp:
  """Real-domain evaluator.  Subclasses override the scalar layer (FP32) or add
  collectives (SPMD)."""

  D = R

  def __init__(self, ctx=None):
    self.ctx = ctx or Ctx()
    self.eqn_count = 0
    self.prims_seen = set()

  # ------------------------------------------------------------------ driver
  def eval_closed(self, cj, *args):
    return self.eval(cj.jaxpr, cj.consts, *args)

  def eval(self, jaxpr, consts, *args):
    env = {}

    def read(v):
      if isinstance(v, jcore.Literal):
        return np.asarray(v.val, dtype=v.aval.dtype)
      return env[v]

    for v, c in zip(jaxpr.constvars, consts):
      env[v] = c if is_sym(c) else np.asarray(c)
    if len(jaxpr.invars) != len(args):
      raise Unsupported(f'arity mismatch {len(jaxpr.invars)} vs {len(args)}')
    for v, a in zip(jaxpr.invars, args):
      env[v] = a
    for eqn in jaxpr.eqns:
      ins = [read(v) for v in eqn.invars]
      outs = self.eqn(eqn, ins)
      if not eqn.primitive.multiple_results:
        outs = [outs]
      for v, o in zip(eqn.outvars, outs):
        if not is_sym(o):
          o = np.asarray(o)
        if tuple(o.shape) != tuple(v.aval.shape):
          raise Unsupported(f'shape mismatch in {eqn.primitive.name}: {o.shape} vs {v.aval.shape}')
        env[v] = o
    return [read(v) for v in jaxpr.outvars]

  def eqn(self, eqn, ins):
    name = eqn.primitive.name
    self.eqn_count += 1
    self.prims_seen.add(name)
    allc = all(not is_sym(a) for a in ins)
    if allc and name not in NO_CONCRETE_BIND:
      return self.concrete(eqn, ins)
    if name in MOVEMENT:
      return self.movement(eqn, ins)
    h = getattr(self, 'p_' + name, None)
    if h is None:
      # generic call-like primitive (a wrapper around a sub-jaxpr with the same inputs and outputs, e.g. a new spelling of
      # jit / checkpoint / named_call): evaluate the body in line
      for key in ('jaxpr', 'call_jaxpr', 'fun_jaxpr'):
        cj = eqn.params.get(key)
        inner = getattr(cj, 'jaxpr', cj)
        if inner is not None and hasattr(inner, 'eqns') and len(inner.invars) == len(ins) and len(inner.outvars) == len(eqn.outvars):
          return self.eval(inner, getattr(cj, 'consts', ()), *ins)
      raise Unsupported(f'primitive {name} params={list(eqn.params.keys())}')
    return h(eqn, ins)

  def concrete(self, eqn, ins):
    args = [jnp.asarray(a, dtype=v.aval.dtype) for a, v in zip(ins, eqn.invars)]
    out = eqn.primitive.bind(*args, **eqn.params)
    if eqn.primitive.multiple_results:
      return [np.asarray(o) for o in out]
    return np.asarray(out)

  # ---------------------------------------------------- data movement (index trick)
  def movement(self, eqn, ins):
    name = eqn.primitive.name
    pool = []
    idx_ins = []
    index_pos = {
        'dynamic_slice': lambda k: k >= 1,
        'dynamic_update_slice': lambda k: k >= 2,
        'gather': lambda k: k == 1,
        'scatter': lambda k: k == 1,
    }.get(name, lambda k: False)
    for k, (a, v) in enumerate(zip(ins, eqn.invars)):
      if index_pos(k):
        if is_sym(a):
          a = self.concretize_index(a, eqn)
        idx_ins.append(jnp.asarray(a, dtype=v.aval.dtype))
        continue
      a = toobj(a)
      base = len(pool)
      pool.extend(a.reshape(-1).tolist())
      idx_ins.append(jnp.arange(base, base + a.size, dtype=jnp.int32).reshape(a.shape))
    out = eqn.primitive.bind(*idx_ins, **eqn.params)
    outs = out if eqn.primitive.multiple_results else [out]
    res = []
    for o in outs:
      o = np.asarray(o)
      r = np.empty(o.shape, dtype=object)
      rf = r.reshape(-1)
      for i, k in enumerate(o.reshape(-1)):
        rf[i] = pool[int(k)]
      res.append(r)
    return res if eqn.primitive.multiple_results else res[0]

  def concretize_index(self, a, eqn):
    """index operands must be concrete (object arrays of python ints are accepted)"""
    out = np.empty(a.shape, dtype=np.int64)
    for idx in np.ndindex(a.shape):
      v = val(a[idx])
      if v is None or is_z3(a[idx]) and not z3.is_int_value(a[idx]):
        raise Unsupported(f'symbolic index operand in {eqn.primitive.name}')
      out[idx] = int(v)
    return out

  # ---------------------------------------------------------------- elementwise
  def p_add(self, e, i): return vec(self.D.s_add, *i)
  def p_add_any(self, e, i): return vec(self.D.s_add, *i)
  def p_sub(self, e, i): return vec(self.D.s_sub, *i)
  def p_mul(self, e, i): return vec(self.D.s_mul, *i)

  def p_div(self, e, i):
    if np.issubdtype(e.outvars[0].aval.dtype, np.integer):
      return vec(self.D.s_idiv, *i)
    return vec(self.D.s_div, *i)

  def p_neg(self, e, i): return vec(self.D.s_neg, *i)
  def p_max(self, e, i): return vec(self.D.s_max, *i)
  def p_min(self, e, i): return vec(self.D.s_min, *i)
  def p_abs(self, e, i): return vec(self.D.s_abs, *i)
  def p_sign(self, e, i): return vec(self.D.s_sign, *i)
  def p_square(self, e, i): return vec(lambda a: self.D.s_mul(a, a), *i)
  def p_floor(self, e, i): return vec(self.D.s_floor, *i)
  def p_ceil(self, e, i): return vec(lambda a: self.D.s_neg(self.D.s_floor(self.D.s_neg(a))), *i)
  def p_round(self, e, i):
    # ROUND_TO_NEAREST_EVEN = 1, AWAY_FROM_ZERO = 0
    m = int(e.params.get('rounding_method', 1))
    if m == 1:
      return vec(self.D.s_round_even, *i)
    return vec(self.D.s_round_away, *i)

  def p_integer_pow(self, e, i):
    y = e.params['y']
    return vec(lambda a: self.D.s_ipow(a, y), *i)

  def p_sqrt(self, e, i): return vec(self.sqrt, *i)
  def p_rsqrt(self, e, i): return vec(lambda a: self.D.s_div(1, self.sqrt(a)), *i)
  def p_exp(self, e, i): return vec(lambda a: R.EXP(R.canon(a)), *i)
  def p_log(self, e, i): return vec(lambda a: R.LOG(R.canon(a)), *i)
  def p_log1p(self, e, i): return vec(lambda a: R.LOG(R.canon(R.s_add(a, Fraction(1)))), *i)
  def p_expm1(self, e, i): return vec(lambda a: R.s_sub(R.EXP(R.canon(a)), Fraction(1)), *i)

  def sqrt(self, a):
    if not is_z3(a):
      a = Fraction(a)
      if a < 0:
        raise R.NonFinite('sqrt of negative constant')
      n, d = math.isqrt(a.numerator), math.isqrt(a.denominator)
      if n * n == a.numerator and d * d == a.denominator:
        return Fraction(n, d)
      a = R.rlit(a)
    a = R.canon(a)
    key = a.get_id()
    hit = self.ctx.sqrt_terms.get(key)
    if hit is not None:
      return hit[0]
    y = R.SQRT(a)
    self.ctx.sqrt_terms[key] = (y, a)
    return y

  def pow(self, a, b):
    vb = val(b)
    if vb is not None:
      vb = Fraction(vb)
      # exponent constants are float roundings of +-1/k (k <= 16): modelled as exactly +-1/k
      if vb != 0 and vb.denominator != 1:
        k = round(1 / abs(float(vb)))
        if 1 <= k <= 16 and abs(abs(float(vb)) - 1.0 / k) < 1e-6 / k:
          vb = Fraction(1, k) if vb > 0 else Fraction(-1, k)
          b = vb
      if vb.denominator == 1 and abs(vb.numerator) <= 16:
        return self.D.s_ipow(R.real(a) if is_z3(a) else Fraction(a), int(vb))
      if vb == Fraction(1, 2):
        return self.sqrt(a)
      if vb == Fraction(-1, 2):
        return self.D.s_div(1, self.sqrt(a))
    va = val(a)
    if va is not None and vb is not None and va == 1:
      return Fraction(1)
    a2 = R.canon(R.real(a) if is_z3(a) else a)
    b2 = R.canon(R.real(b) if is_z3(b) else b)
    key = (a2.get_id(), b2.get_id())
    hit = self.ctx.pow_terms.get(key)
    if hit is not None:
      return hit[0]
    y = R.POW(a2, b2)
    self.ctx.pow_terms[key] = (y, a2, b2)
    return y

  def p_pow(self, e, i): return vec(self.pow, *i)

  def p_eq(self, e, i): return vec(self.D.s_eq, *i)
  def p_ne(self, e, i): return vec(self.D.s_ne, *i)
  def p_lt(self, e, i): return vec(self.D.s_lt, *i)
  def p_le(self, e, i): return vec(self.D.s_le, *i)
  def p_gt(self, e, i): return vec(self.D.s_gt, *i)
  def p_ge(self, e, i): return vec(self.D.s_ge, *i)
  def p_and(self, e, i):
    if np.issubdtype(e.outvars[0].aval.dtype, np.bool_):
      return vec(self.D.s_and, *i)
    raise Unsupported('bitwise and on ints')
  def p_or(self, e, i):
    if np.issubdtype(e.outvars[0].aval.dtype, np.bool_):
      return vec(self.D.s_or, *i)
    raise Unsupported('bitwise or on ints')
  def p_not(self, e, i):
    if np.issubdtype(e.outvars[0].aval.dtype, np.bool_):
      return vec(self.D.s_not, *i)
    raise Unsupported('bitwise not on ints')
  def p_xor(self, e, i):
    if np.issubdtype(e.outvars[0].aval.dtype, np.bool_):
      return vec(lambda a, b: self.D.s_or(self.D.s_and(a, self.D.s_not(b)), self.D.s_and(self.D.s_not(a), b)), *i)
    raise Unsupported('bitwise xor on ints')

  def p_is_finite(self, e, i):
    # Real domain: every represented value is finite.
    return vec(lambda a: True, *i)

  def p_stop_gradient(self, e, i): return i[0]
  def p_sharding_constraint(self, e, i): return i[0]
  def p_mesh_cast(self, e, i): return i[0]
  def p_reshard(self, e, i): return i[0]
  def p_pvary(self, e, i): return list(i)
  def p_optimization_barrier(self, e, i): return list(i)
  def p_reduce_precision(self, e, i): return i[0]

  def p_select_n(self, e, i):
    c = i[0]
    cases = i[1:]
    if np.issubdtype(e.invars[0].aval.dtype, np.bool_):
      if len(cases) != 2:
        raise Unsupported('select_n bool with !=2 cases')
      return vec(lambda c, a, b: self.D.s_if(c, b, a), c, cases[0], cases[1])
    # integer selector
    def f(c, *xs):
      out = xs[-1]
      for k in range(len(xs) - 2, -1, -1):
        out = self.D.s_if(self.D.s_eq(c, k), xs[k], out)
      return out
    return vec(f, c, *cases)

  def p_clamp(self, e, i):
    lo, x, hi = i
    return vec(lambda lo, x, hi: self.D.s_min(self.D.s_max(x, lo), hi), lo, x, hi)

  def p_convert_element_type(self, e, i):
    src = e.invars[0].aval.dtype
    dst = np.dtype(e.params['new_dtype'])
    return vec(lambda a: self.convert(a, src, dst), i[0])

  def convert(self, a, src, dst):
    isf = lambda d: np.issubdtype(d, np.floating)
    isi = lambda d: np.issubdtype(d, np.integer)
    isb = lambda d: np.issubdtype(d, np.bool_)
    if isb(dst):
      return a if isb(src) else self.D.s_ne(a, 0)
    if isb(src):
      if isi(dst):
        return self.D.s_if(a, 1, 0) if is_z3(a) else int(a)
      return self.D.s_if(a, Fraction(1), Fraction(0)) if is_z3(a) else Fraction(int(a))
    if isi(src) and isf(dst):
      return z3.ToReal(a) if is_z3(a) else Fraction(a)
    if isf(src) and isi(dst):
      return self.D.s_trunc_int(a)
    # float->float (f32<->f64, bf16): exact reals; precision loss is not modelled
    return a

  def p_rem(self, e, i):
    if np.issubdtype(e.outvars[0].aval.dtype, np.integer):
      return vec(self.D.s_irem, *i)
    return vec(self.D.s_frem, *i)

  # ------------------------------------------------------------------ reductions
  def _reduce(self, f, e, i, axes=None):
    a = toobj(i[0])
    axes = tuple(e.params['axes']) if axes is None else axes
    if not axes:
      return a
    a = np.moveaxis(a, axes, tuple(range(len(axes))))
    k = int(np.prod(a.shape[:len(axes)]))
    rest = a.shape[len(axes):]
    a = a.reshape((k,) + rest)
    if k == 0:
      raise Unsupported('empty reduction')
    out = a[0]
    for j in range(1, k):
      out = vec(f, out, a[j])
    if not isinstance(out, np.ndarray):
      o = np.empty((), dtype=object)
      o[()] = out
      out = o
    return out.reshape(rest)

  def p_reduce_sum(self, e, i):
    a = toobj(i[0])
    axes = tuple(e.params['axes'])
    if a.size == 0 or any(a.shape[ax] == 0 for ax in axes):
      rest = tuple(s for k, s in enumerate(a.shape) if k not in axes)
      return toobj(np.zeros(rest, dtype=e.outvars[0].aval.dtype))
    return self._reduce(self.D.s_add, e, i)
  def p_reduce_max(self, e, i): return self._reduce(self.D.s_max, e, i)
  def p_reduce_min(self, e, i): return self._reduce(self.D.s_min, e, i)
  def p_reduce_and(self, e, i): return self._reduce(self.D.s_and, e, i)
  def p_reduce_or(self, e, i): return self._reduce(self.D.s_or, e, i)
  def p_reduce_prod(self, e, i): return self._reduce(self.D.s_mul, e, i)

  def p_argmax(self, e, i): raise Unsupported('argmax on symbolic data')
  def p_argmin(self, e, i): raise Unsupported('argmin on symbolic data')

  def p_cumsum(self, e, i):
    a = toobj(i[0])
    ax = e.params['axis']
    rev = e.params.get('reverse', False)
    a = np.moveaxis(a, ax, 0)
    if rev:
      a = a[::-1]
    out = np.empty(a.shape, dtype=object)
    acc = None
    for k in range(a.shape[0]):
      acc = a[k] if acc is None else vec(self.D.s_add, acc, a[k])
      out[k] = acc
    if rev:
      out = out[::-1]
    return np.moveaxis(out, 0, ax)

  def _cumulative(self, e, i, op):
    a = toobj(i[0])
    ax = e.params['axis']
    rev = e.params.get('reverse', False)
    a = np.moveaxis(a, ax, 0)
    if rev:
      a = a[::-1]
    out = np.empty(a.shape, dtype=object)
    acc = None
    for k in range(a.shape[0]):
      acc = a[k] if acc is None else vec(op, acc, a[k])
      out[k] = acc
    if rev:
      out = out[::-1]
    return np.moveaxis(out, 0, ax)

  def p_cumprod(self, e, i): return self._cumulative(e, i, self.D.s_mul)
  def p_cummax(self, e, i): return self._cumulative(e, i, self.D.s_max)
  def p_cummin(self, e, i): return self._cumulative(e, i, self.D.s_min)

  def p_dot_general(self, e, i):
    (lc, rc), (lb, rb) = e.params['dimension_numbers']
    a, b = toobj(i[0]), toobj(i[1])
    lfree = [d for d in range(a.ndim) if d not in lc and d not in lb]
    rfree = [d for d in range(b.ndim) if d not in rc and d not in rb]
    a2 = np.transpose(a, list(lb) + lfree + list(lc))
    b2 = np.transpose(b, list(rb) + rfree + list(rc))
    bs = a2.shape[:len(lb)]
    lf = a2.shape[len(lb):len(lb) + len(lfree)]
    rf = b2.shape[len(rb):len(rb) + len(rfree)]
    cs = a2.shape[len(lb) + len(lfree):]
    out = np.empty(bs + lf + rf, dtype=object)
    zero = self.zero(e.outvars[0].aval.dtype)
    for bi in np.ndindex(bs):
      for li in np.ndindex(lf):
        for ri in np.ndindex(rf):
          acc = zero
          for ci in np.ndindex(cs):
            acc = self.D.s_add(acc, self.D.s_mul(a2[bi + li + ci], b2[bi + ri + ci]))
          out[bi + li + ri] = acc
    return out

  def zero(self, dtype):
    return 0 if np.issubdtype(dtype, np.integer) else Fraction(0)

  # ---------------------------------------------------------------- control flow
  def p_jit(self, e, i):
    cj = e.params['jaxpr']
    return self.eval(cj.jaxpr, cj.consts, *i)
  p_pjit = p_jit
  p_closed_call = lambda self, e, i: self.eval(e.params['call_jaxpr'].jaxpr, e.params['call_jaxpr'].consts, *i)

  def p_core_call(self, e, i):
    cj = e.params['call_jaxpr']
    return self.eval(cj, (), *i)

  def p_remat(self, e, i):
    cj = e.params['jaxpr']
    return self.eval(cj, (), *i)
  p_checkpoint = p_remat
  p_remat2 = p_remat

  def p_custom_jvp_call(self, e, i):
    cj = e.params['call_jaxpr']
    return self.eval(cj.jaxpr, cj.consts, *i)

  def p_custom_vjp_call(self, e, i):
    cj = e.params.get('call_jaxpr') or e.params.get('fun_jaxpr')
    return self.eval(cj.jaxpr, cj.consts, *i)
  p_custom_vjp_call_jaxpr = p_custom_vjp_call

  def merge(self, c, new, old):
    """ite(c, new, old) elementwise"""
    return vec(lambda a, b: self.D.s_if(c, a, b), new, old)

  def p_cond(self, e, i):
    idx = i[0]
    ops = i[1:]
    br = e.params['branches']
    if not is_sym(idx):
      k = int(np.asarray(idx))
      k = min(max(k, 0), len(br) - 1)
      return self.eval(br[k].jaxpr, br[k].consts, *ops)
    sel = idx.item()
    v = val(sel)
    if v is not None:
      k = min(max(int(v), 0), len(br) - 1)
      return self.eval(br[k].jaxpr, br[k].consts, *ops)
    isbool = np.issubdtype(e.invars[0].aval.dtype, np.bool_)
    outs = [self.eval(b.jaxpr, b.consts, *ops) for b in br]
    res = outs[-1]
    for k in range(len(br) - 2, -1, -1):
      if isbool:
        c = self.D.s_not(sel) if k == 0 else sel
      else:
        c = self.D.s_le(sel, 0) if k == 0 else self.D.s_eq(sel, k)
      res = [self.merge(c, a, b) for a, b in zip(outs[k], res)]
    return res

  def p_while(self, e, i):
    cn = e.params['cond_nconsts']
    bn = e.params['body_nconsts']
    cj = e.params['cond_jaxpr']
    bj = e.params['body_jaxpr']
    cc = i[:cn]
    bc = i[cn:cn + bn]
    carry = list(i[cn + bn:])
    hook = getattr(self, 'while_hook', None)
    if hook is not None:
      r = hook(self, e, cc, bc, carry)
      if r is not None:
        return r
    it = 0
    sym_it = 0
    while True:
      c = self.eval(cj.jaxpr, cj.consts, *cc, *carry)[0]
      cz = c.item() if is_sym(c) else bool(np.asarray(c))
      v = val(cz) if is_sym(c) else cz
      if v is not None:
        if not v:
          return carry
        carry = self.eval(bj.jaxpr, bj.consts, *bc, *carry)
        it += 1
        if it > 5000:
          raise Unsupported('concrete loop too long')
        continue
      if sym_it >= self.ctx.unroll:
        self.ctx.unwind.append(self.D.s_not(cz))
        return carry
      new = self.eval(bj.jaxpr, bj.consts, *bc, *carry)
      carry = [self.merge(cz, n, o) for n, o in zip(new, carry)]
      sym_it += 1

  def p_scan(self, e, i):
    p = e.params
    nc, ncar = p['num_consts'], p['num_carry']
    length = p['length']
    cj = p['jaxpr']
    consts = i[:nc]
    carry = list(i[nc:nc + ncar])
    xs = [toobj(x) for x in i[nc + ncar:]]
    ys = None
    rng = range(length - 1, -1, -1) if p.get('reverse') else range(length)
    per = {}
    for t in rng:
      outs = self.eval(cj.jaxpr, cj.consts, *consts, *carry, *[x[t] for x in xs])
      carry = list(outs[:ncar])
      per[t] = outs[ncar:]
    nys = len(cj.jaxpr.outvars) - ncar
    ys = []
    for k in range(nys):
      ys.append(np.stack([toobj(per[t][k]) for t in range(length)], axis=0) if length else
                np.empty((0,) + tuple(cj.jaxpr.outvars[ncar + k].aval.shape), dtype=object))
    return carry + ys

  # ------------------------------------------------------------------ iota etc.
  def p_iota(self, e, i):
    return self.concrete(e, i)


def trace(fn, *example, axis_env=None, quiet=True):
  """jaxpr of the real function `fn` on flat example leaves, plus its output treedef."""
  buf = io.StringIO()
  cm = contextlib.redirect_stdout(buf) if quiet else contextlib.nullcontext()
  with cm:
    if axis_env:
      jp = jax.make_jaxpr(fn, axis_env=axis_env)(*example)
      out_shape = None
    else:
      jp, out_shape = jax.make_jaxpr(fn, return_shape=True)(*example)
  return jp, out_shape


def count_eqns(jaxpr):
  n = 0
  for e in jaxpr.eqns:
    n += 1
    for v in e.params.values():
      for sub in (v if isinstance(v, (list, tuple)) else [v]):
        if hasattr(sub, 'jaxpr') and hasattr(sub.jaxpr, 'eqns'):
          n += count_eqns(sub.jaxpr)
        elif hasattr(sub, 'eqns'):
          n += count_eqns(sub)
  return n
