"""Real/Int/Bool scalar domain for the jaxpr evaluator.

float -> z3 Real, int -> z3 Int, bool -> z3 Bool.  Exact arithmetic: NaN, Inf and
rounding are NOT represented.  Concrete scalars stay Python numbers
(int / Fraction / bool) until they meet a symbolic operand, so constant folding
is exact as well.
"""
from fractions import Fraction
import math
import operator
import numpy as np
import z3


def is_z3(x):
  return isinstance(x, z3.ExprRef)


def val(x):
  """Concrete value of a python number or z3 numeral, else None."""
  if isinstance(x, (bool, int, Fraction)):
    return x
  if isinstance(x, float):
    return Fraction(x)
  if not is_z3(x):
    return None
  if z3.is_true(x):
    return True
  if z3.is_false(x):
    return False
  if z3.is_int_value(x):
    return x.as_long()
  if z3.is_rational_value(x):
    return x.as_fraction()
  return None


def lift(x):
  """numpy / python scalar -> exact python number (bool, int, Fraction)."""
  if is_z3(x):
    return x
  if isinstance(x, (bool, np.bool_)):
    return bool(x)
  if isinstance(x, (int, np.integer)):
    return int(x)
  if isinstance(x, Fraction):
    return x
  if isinstance(x, (float, np.floating)):
    if not np.isfinite(x):
      raise NonFinite(float(x))
    return Fraction(float(x))
  raise TypeError(type(x))


class NonFinite(Exception):
  """A concrete NaN/Inf met a symbolic operand in Real mode (not representable)."""


def tolit(x, like=None):
  """python number -> z3 literal of the sort matching `like` (or its own type)."""
  if is_z3(x):
    return x
  if isinstance(x, bool):
    return z3.BoolVal(x)
  if like is not None and is_z3(like):
    if like.sort() == z3.IntSort() and (isinstance(x, int) or Fraction(x).denominator == 1):
      return z3.IntVal(int(x))
    if like.sort() == z3.RealSort():
      x = Fraction(x)
      return z3.RealVal(f'{x.numerator}/{x.denominator}')
  if isinstance(x, int):
    return z3.IntVal(x)
  x = Fraction(x)
  return z3.RealVal(f'{x.numerator}/{x.denominator}')


def real(x):
  """force a Real-sorted z3 term (or exact Fraction if concrete)"""
  if is_z3(x):
    return z3.ToReal(x) if x.sort() == z3.IntSort() else x
  return Fraction(x)


def rlit(x):
  x = Fraction(x)
  return z3.RealVal(f'{x.numerator}/{x.denominator}')


def _pair(a, b):
  """make two operands z3-compatible (lift python numbers to the other's sort)."""
  if is_z3(a) and not is_z3(b):
    b = tolit(b, a)
  elif is_z3(b) and not is_z3(a):
    a = tolit(a, b)
  if is_z3(a) and is_z3(b) and a.sort() != b.sort():
    if a.sort() == z3.IntSort() and b.sort() == z3.RealSort():
      a = z3.ToReal(a)
    elif b.sort() == z3.IntSort() and a.sort() == z3.RealSort():
      b = z3.ToReal(b)
  return a, b


def s_add(a, b):
  va, vb = val(a), val(b)
  if va is not None and vb is not None and not is_z3(a) and not is_z3(b):
    return a + b
  if va is not None and va == 0:
    return b
  if vb is not None and vb == 0:
    return a
  a, b = _pair(a, b)
  return a + b


def s_sub(a, b):
  va, vb = val(a), val(b)
  if not is_z3(a) and not is_z3(b):
    return a - b
  if vb is not None and vb == 0:
    return a
  if is_z3(a) and is_z3(b) and a.eq(b):
    return 0 if a.sort() == z3.IntSort() else Fraction(0)
  a, b = _pair(a, b)
  return a - b


def s_mul(a, b):
  va, vb = val(a), val(b)
  if not is_z3(a) and not is_z3(b):
    return a * b
  if va is not None:
    if va == 0:
      return 0 if (is_z3(b) and b.sort() == z3.IntSort()) else Fraction(0)
    if va == 1:
      return b
  if vb is not None:
    if vb == 0:
      return 0 if (is_z3(a) and a.sort() == z3.IntSort()) else Fraction(0)
    if vb == 1:
      return a
  a, b = _pair(a, b)
  return a * b


def s_div(a, b):
  """real division"""
  va, vb = val(a), val(b)
  if not is_z3(a) and not is_z3(b):
    if vb == 0:
      raise NonFinite('concrete division by zero')
    return Fraction(a) / Fraction(b)
  if vb is not None and vb == 1:
    return a
  if va is not None and va == 0 and vb is not None and vb != 0:
    return Fraction(0)
  a, b = _pair(real(a) if is_z3(a) else a, real(b) if is_z3(b) else b)
  return a / b


def s_neg(a):
  return -a


def s_if(c, a, b):
  vc = val(c)
  if vc is True:
    return a
  if vc is False:
    return b
  if is_z3(a) and is_z3(b) and a.eq(b):
    return a
  if not is_z3(a) and not is_z3(b) and type(a) == type(b) and a == b:
    return a
  abool = isinstance(a, bool) or (is_z3(a) and a.sort() == z3.BoolSort())
  bbool = isinstance(b, bool) or (is_z3(b) and b.sort() == z3.BoolSort())
  if abool and bbool:
    # boolean if-then-else by local rules (no z3.simplify: its normal form depends on
    # term creation order, which would make two evaluations of the same program differ)
    va, vb = val(a), val(b)
    if va is True:
      return s_or(c, b)
    if va is False:
      return s_and(s_not(c), b)
    if vb is True:
      return s_or(s_not(c), a)
    if vb is False:
      return s_and(c, a)
    return z3.If(c, a, b)
  if not is_z3(a) and not is_z3(b):
    if isinstance(a, int) and isinstance(b, int):
      if a == b:
        return a
      a, b = z3.IntVal(a), z3.IntVal(b)
    else:
      if Fraction(a) == Fraction(b):
        return Fraction(a)
      a, b = rlit(a), rlit(b)
  a, b = _pair(a, b)
  return z3.If(c, a, b)


def _is_num_ite(t):
  return (is_z3(t) and z3.is_app(t) and t.decl().kind() == z3.Z3_OP_ITE and val(t.arg(1)) is not None
          and val(t.arg(2)) is not None and not isinstance(val(t.arg(1)), bool))


def _cmp(op):
  def f(a, b):
    if not is_z3(a) and not is_z3(b):
      return bool(op(a, b))
    # comparison of a 0/1 blend with a constant folds to its condition
    if _is_num_ite(a) and not is_z3(b):
      return s_if(a.arg(0), bool(op(val(a.arg(1)), b)), bool(op(val(a.arg(2)), b)))
    if _is_num_ite(b) and not is_z3(a):
      return s_if(b.arg(0), bool(op(a, val(b.arg(1)))), bool(op(a, val(b.arg(2)))))
    a, b = _pair(a, b)
    if a.eq(b):
      return bool(op(0, 0))
    va, vb = val(a), val(b)
    if va is not None and vb is not None:
      return bool(op(va, vb))
    return op(a, b)
  return f


s_eq = _cmp(operator.eq)
s_ne = _cmp(operator.ne)
s_lt = _cmp(operator.lt)
s_le = _cmp(operator.le)
s_gt = _cmp(operator.gt)
s_ge = _cmp(operator.ge)


def is_nonneg(t, depth=0):
  """syntactic non-negativity: |x| patterns, squares, max/ite of non-negatives, constants"""
  if not is_z3(t):
    return t >= 0
  v = val(t)
  if v is not None and not isinstance(v, bool):
    return v >= 0
  if depth > 6 or not z3.is_app(t):
    return False
  k = t.decl().kind()
  if k == z3.Z3_OP_ITE:
    c, x, y = t.children()
    # abs pattern If(x >= 0, x, -x)
    if z3.is_app(c) and c.decl().kind() == z3.Z3_OP_GE and c.arg(0).eq(x) and val(c.arg(1)) == 0:
      if z3.simplify(x + y).eq(z3.RealVal(0)) or z3.simplify(x + y).eq(z3.IntVal(0)):
        return True
    return is_nonneg(x, depth + 1) and is_nonneg(y, depth + 1)
  if k == z3.Z3_OP_MUL and t.num_args() == 2 and t.arg(0).eq(t.arg(1)):
    return True
  return False


def s_max(a, b):
  if not is_z3(a) and not is_z3(b):
    return max(a, b)
  if is_z3(a) and is_z3(b) and a.eq(b):
    return a
  if not is_z3(a) and a == 0 and is_nonneg(b):
    return b
  if not is_z3(b) and b == 0 and is_nonneg(a):
    return a
  return s_if(s_ge(a, b), a, b)


def s_min(a, b):
  if not is_z3(a) and not is_z3(b):
    return min(a, b)
  if is_z3(a) and is_z3(b) and a.eq(b):
    return a
  return s_if(s_le(a, b), a, b)


def s_abs(a):
  if not is_z3(a):
    return abs(a)
  return z3.If(a >= 0, a, -a)


def s_and(a, b):
  va, vb = val(a), val(b)
  if va is False or vb is False:
    return False
  if va is True:
    return b
  if vb is True:
    return a
  if a.eq(b):
    return a
  if (z3.is_not(a) and a.arg(0).eq(b)) or (z3.is_not(b) and b.arg(0).eq(a)):
    return False
  return z3.And(a, b)


def s_or(a, b):
  va, vb = val(a), val(b)
  if va is True or vb is True:
    return True
  if va is False:
    return b
  if vb is False:
    return a
  if a.eq(b):
    return a
  if (z3.is_not(a) and a.arg(0).eq(b)) or (z3.is_not(b) and b.arg(0).eq(a)):
    return True
  return z3.Or(a, b)


def s_not(a):
  va = val(a)
  if va is not None:
    return not va
  if z3.is_not(a):
    return a.arg(0)
  return z3.Not(a)


def s_sign(a):
  if not is_z3(a):
    return (a > 0) - (a < 0) if isinstance(a, int) else Fraction((a > 0) - (a < 0))
  one = 1 if a.sort() == z3.IntSort() else Fraction(1)
  return s_if(s_gt(a, 0), one, s_if(s_lt(a, 0), -one, one - one))


def s_floor(a):
  """floor of a real as a Real-sorted term"""
  if not is_z3(a):
    return Fraction(math.floor(a))
  return z3.ToReal(z3.ToInt(a))


def s_trunc_int(a):
  """float -> int conversion (toward zero), Int-sorted"""
  if not is_z3(a):
    return int(a)  # python int() truncates toward zero
  if a.sort() == z3.IntSort():
    return a
  return z3.If(a >= 0, z3.ToInt(a), -z3.ToInt(-a))


def s_round_even(a):
  """round half to even, Real-sorted"""
  if not is_z3(a):
    a = Fraction(a)
    f = math.floor(a)
    d = a - f
    if d < Fraction(1, 2):
      return Fraction(f)
    if d > Fraction(1, 2):
      return Fraction(f + 1)
    return Fraction(f if f % 2 == 0 else f + 1)
  f = z3.ToInt(a)
  d = a - z3.ToReal(f)
  half = z3.RealVal('1/2')
  return z3.ToReal(z3.If(d < half, f, z3.If(d > half, f + 1, z3.If(f % 2 == 0, f, f + 1))))


def s_round_away(a):
  """round half away from zero, Real-sorted"""
  if not is_z3(a):
    a = Fraction(a)
    r = math.floor(abs(a) + Fraction(1, 2))
    return Fraction(r if a >= 0 else -r)
  half = z3.RealVal('1/2')
  return z3.If(a >= 0, z3.ToReal(z3.ToInt(a + half)), -z3.ToReal(z3.ToInt(-a + half)))


def s_idiv(a, b):
  """C-style integer division (truncation toward zero)"""
  if not is_z3(a) and not is_z3(b):
    q = abs(a) // abs(b)
    return q if (a < 0) == (b < 0) else -q
  a, b = _pair(a, b)
  vb = val(b)
  if vb is not None and vb > 0:
    return z3.If(a >= 0, a / b, -((-a) / b))
  aa = z3.If(a >= 0, a, -a)
  ab = z3.If(b >= 0, b, -b)
  q = aa / ab
  return z3.If((a < 0) == (b < 0), q, -q)


def s_irem(a, b):
  """C-style remainder: sign follows the dividend"""
  if not is_z3(a) and not is_z3(b):
    return int(math.fmod(a, b))
  a, b = _pair(a, b)
  vb = val(b)
  if vb is not None and vb > 0:
    m = a % b
    return z3.If(z3.And(a < 0, m != 0), m - b, m)
  ab = z3.If(b >= 0, b, -b)
  m = a % ab
  return z3.If(z3.And(a < 0, m != 0), m - ab, m)


def s_frem(a, b):
  """float remainder (fmod): a - b*trunc(a/b)"""
  if not is_z3(a) and not is_z3(b):
    return Fraction(math.fmod(a, b)) if False else (Fraction(a) - Fraction(b) * int(Fraction(a) / Fraction(b)))
  q = s_div(a, b)
  t = z3.ToReal(s_trunc_int(q))
  return s_sub(a, s_mul(b, t))


def s_ipow(a, y):
  if y == 0:
    return 1 if (is_z3(a) and a.sort() == z3.IntSort()) or isinstance(a, int) else Fraction(1)
  r = None
  for _ in range(abs(y)):
    r = a if r is None else s_mul(r, a)
  return r if y > 0 else s_div(1, r)


def canon(a):
  """canonical form of an argument handed to an uninterpreted function."""
  if not is_z3(a):
    return rlit(a)
  return z3.simplify(a, flat=True, sort_sums=True, som=False)


SQRT = z3.Function('sqrt', z3.RealSort(), z3.RealSort())
POW = z3.Function('pow', z3.RealSort(), z3.RealSort(), z3.RealSort())
EXP = z3.Function('exp', z3.RealSort(), z3.RealSort())
LOG = z3.Function('log', z3.RealSort(), z3.RealSort())
