"""Stubs: pieces of the computation that are abstracted, each part of the claim.

* `symstub` is a real JAX primitive (abstract eval + batching rule), bound by
  harness-side replacements of `matrix_inverse_pth_root` & co.  The evaluator
  turns each application into uninterpreted functions of its inputs.
* `eigh` / `svd` / `qr` primitives are answered with fresh outputs per distinct
  input (memoised on term identity) under a contract chosen by the harness.
"""
from fractions import Fraction
import numpy as np
import z3
import jax
import jax.numpy as jnp
from jax.extend import core as jcore
from jax.interpreters import batching, mlir

from . import real as R
from .real import is_z3, val
from .interp import Interp, toobj, is_sym, Unsupported

symstub_p = jcore.Primitive('symstub')
symstub_p.multiple_results = True


def _abs(*args, name, out_shapes, nbatch, static):
  bshape = args[0].shape[:nbatch]
  return [jax.core.ShapedArray(tuple(bshape) + tuple(s), d) for s, d in out_shapes]


symstub_p.def_abstract_eval(_abs)

CONCRETE_IMPL = {}   # name -> python callable used when the stub is executed concretely


def _impl(*args, name, out_shapes, nbatch, static):
  f = CONCRETE_IMPL.get(name)
  if f is None:
    bshape = args[0].shape[:nbatch]
    return [jnp.zeros(tuple(bshape) + tuple(s), d) for s, d in out_shapes]
  fn = lambda *a: tuple(f(*a, static=static))
  for _ in range(nbatch):
    fn = jax.vmap(fn)
  return list(fn(*args))


symstub_p.def_impl(_impl)
mlir.register_lowering(symstub_p, mlir.lower_fun(_impl, multiple_results=True))


def _batch(args, dims, name, out_shapes, nbatch, static):
  size = next(a.shape[d] for a, d in zip(args, dims) if d is not None)
  args = [jnp.moveaxis(a, d, 0) if d is not None else jnp.broadcast_to(a, (size,) + a.shape)
          for a, d in zip(args, dims)]
  outs = symstub_p.bind(*args, name=name, out_shapes=out_shapes, nbatch=nbatch + 1, static=static)
  return outs, [0] * len(outs)


batching.primitive_batchers[symstub_p] = _batch


def stub_call(name, out_shapes, *args, static=()):
  return symstub_p.bind(
      *[jnp.asarray(a) for a in args], name=name,
      out_shapes=tuple((tuple(s), np.dtype(d)) for s, d in out_shapes), nbatch=0,
      static=tuple(static))


STUB_EVAL = {}   # name -> f(interp, ins(list of object arrays, unbatched), eqn_params) -> list of arrays


def _sort_of(dtype):
  if np.issubdtype(dtype, np.floating):
    return z3.RealSort()
  if np.issubdtype(dtype, np.bool_):
    return z3.BoolSort()
  return z3.IntSort()


def uf_apply(name, args, out_sort=None):
  """uninterpreted function `name` applied to z3 terms / exact numbers"""
  zs = []
  for a in args:
    if not is_z3(a):
      a = R.tolit(a) if isinstance(a, (bool, int)) else R.rlit(a)
    zs.append(a)
  f = z3.Function(name, *[a.sort() for a in zs], out_sort if out_sort is not None else z3.RealSort())
  return f(*zs)


def generic_uf(interp, name, ins, in_dtypes, out_shapes):
  flat = []
  for a, dt in zip(ins, in_dtypes):
    for x in np.asarray(a, dtype=object).reshape(-1):
      if np.issubdtype(dt, np.floating):
        x = R.canon(x) if is_z3(x) else R.rlit(x)
      flat.append(x)
  outs = []
  for k, (s, d) in enumerate(out_shapes):
    o = np.empty(tuple(s), dtype=object)
    for oi in np.ndindex(*s):
      o[oi] = uf_apply(f'{name}_o{k}' + ''.join(f'_{j}' for j in oi), flat, _sort_of(d))
    outs.append(o)
  return outs


def _arr(x):
  if isinstance(x, np.ndarray):
    return x
  o = np.empty((), dtype=object)
  o[()] = x
  return o


def p_symstub(self, e, ins):
  name = e.params['name']
  nb = e.params['nbatch']
  out_shapes = e.params['out_shapes']
  ins = [toobj(a) for a in ins]
  bshape = ins[0].shape[:nb]
  outs = [np.empty(tuple(bshape) + tuple(s), dtype=object) for s, _ in out_shapes]
  ev = STUB_EVAL.get(name)
  in_dtypes = [v.aval.dtype for v in e.invars]
  for bi in (np.ndindex(*bshape) if nb else [()]):
    sub = [_arr(a[bi]) for a in ins]
    if ev is not None:
      res = ev(self, sub, e.params)
    else:
      res = generic_uf(self, name, sub, in_dtypes, out_shapes)
    self.ctx.stub_log.append((name, tuple(bi)))
    for k in range(len(out_shapes)):
      rk = res[k]
      if isinstance(rk, np.ndarray) and rk.ndim == 0:
        rk = rk.item()
      outs[k][bi] = rk
  return outs


Interp.p_symstub = p_symstub


# ---------------------------------------------------------------- inverse-root stub
def root_uf(S, p, tag='root'):
  """ROOT_k[i,j](S[:k,:k], p), ERR_k(S[:k,:k], p) for an unpadded k x k block S of terms.

  Shared by the evaluator (code side) and by every reference model."""
  S = np.asarray(S, dtype=object)
  k = S.shape[0]
  args = [R.canon(x) if is_z3(x) else R.rlit(x) for x in S.reshape(-1)] + [z3.IntVal(int(p))]
  root = np.empty((k, k), dtype=object)
  for i in range(k):
    for j in range(k):
      root[i, j] = uf_apply(f'{tag}{k}_{i}_{j}', args)
  err = uf_apply(f'{tag}{k}_err', args)
  return root, err


def eval_root(self, ins, params):
  """symstub 'root': inputs (matrix[n,n], p, padding_start) -> (root[n,n], err).

  Assumption recorded in evidence: padding invariance of the root routine (the
  result on a zero-padded matrix is the zero-padded result of the k x k block)."""
  mat, p, pad = ins[:3]
  n = mat.shape[0]
  vp, vk = val(p.item()), val(pad.item())
  if vp is None or vk is None:
    raise Unsupported('root stub needs concrete exponent and padding_start')
  k = int(vk)
  tag = dict(params.get('static', ())).get('tag', 'root')
  root = np.empty((n, n), dtype=object)
  root[...] = Fraction(0)
  if k == 0:
    return [root, np.array(Fraction(0), dtype=object)]
  r, err = root_uf(mat[:k, :k], int(vp), tag=tag)
  root[:k, :k] = r
  e = np.empty((), dtype=object)
  e[()] = err
  return [root, e]


STUB_EVAL['root'] = eval_root


# ------------------------------------------------------------ eigh / svd / qr stubs
def _memo_key(kind, a, extra=()):
  ids = []
  for x in np.asarray(a, dtype=object).reshape(-1):
    ids.append(('z', x.get_id()) if is_z3(x) else ('c', str(x)))
  return (kind, tuple(a.shape), tuple(ids), tuple(extra))


def _fresh_arr(ctx, pfx, shape):
  o = np.empty(shape, dtype=object)
  for idx in np.ndindex(*shape):
    o[idx] = z3.Real(pfx + ''.join(f'_{k}' for k in idx))
  return o


def _batched(self, e, ins, core_ndim, fn):
  a = toobj(ins[0])
  bshape = a.shape[:a.ndim - core_ndim]
  outs = None
  for bi in (np.ndindex(*bshape) if bshape else [()]):
    res = fn(a[bi])
    if outs is None:
      outs = [np.empty(tuple(bshape) + r.shape, dtype=object) for r in res]
    for k, r in enumerate(res):
      outs[k][bi] = r.item() if isinstance(r, np.ndarray) and r.ndim == 0 else r
  return outs


def p_eigh(self, e, ins):
  ctx = self.ctx

  def one(a):
    n = a.shape[-1]
    key = _memo_key('eigh', a)
    hit = ctx.memo.get(key)
    if hit is None:
      w = V = None
      if ctx.witness is not None:
        got = ctx.witness('eigh', a)
        if got is not None:
          w, V = got
      if w is None:
        tag = f'eh{len(ctx.decomps)}'
        w = _fresh_arr(ctx, f'{tag}_w', (n,))
        V = _fresh_arr(ctx, f'{tag}_v', (n, n))
      rec = dict(kind='eigh', a=a, w=w, V=V)
      ctx.decomps.append(rec)
      ctx.memo[key] = hit = rec
    return [hit['V'], hit['w']]

  outs = _batched(self, e, ins, 2, one)
  # primitive output order is (v, w)
  shapes = [tuple(v.aval.shape) for v in e.outvars]
  if shapes[0] != outs[0].shape:
    outs = outs[::-1]
  return outs


def p_svd(self, e, ins):
  ctx = self.ctx
  full = e.params.get('full_matrices', False)
  cuv = e.params.get('compute_uv', True)
  if full:
    raise Unsupported('svd full_matrices')

  def one(a):
    m, n = a.shape
    k = min(m, n)
    key = _memo_key('svd', a)
    hit = ctx.memo.get(key)
    if hit is None:
      got = ctx.witness('svd', a) if ctx.witness is not None else None
      if got is not None:
        s, U, Vt = got
      else:
        tag = f'sv{len(ctx.decomps)}'
        s = _fresh_arr(ctx, f'{tag}_s', (k,))
        U = _fresh_arr(ctx, f'{tag}_u', (m, k))
        Vt = _fresh_arr(ctx, f'{tag}_vt', (k, n))
      rec = dict(kind='svd', a=a, s=s, U=U, Vt=Vt)
      ctx.decomps.append(rec)
      ctx.memo[key] = hit = rec
    return [hit['s'], hit['U'], hit['Vt']] if cuv else [hit['s']]

  return _batched(self, e, ins, 2, one)


def p_qr(self, e, ins):
  ctx = self.ctx
  if e.params.get('full_matrices', False):
    raise Unsupported('qr full_matrices')

  def one(a):
    m, n = a.shape
    k = min(m, n)
    key = _memo_key('qr', a)
    hit = ctx.memo.get(key)
    if hit is None:
      tag = f'qr{len(ctx.decomps)}'
      Q = _fresh_arr(ctx, f'{tag}_q', (m, k))
      Rm = _fresh_arr(ctx, f'{tag}_r', (k, n))
      for r in range(k):
        for c in range(min(r, n)):
          Rm[r, c] = Fraction(0)
      rec = dict(kind='qr', a=a, Q=Q, R=Rm)
      ctx.decomps.append(rec)
      ctx.memo[key] = hit = rec
    return [hit['Q'], hit['R']]

  return _batched(self, e, ins, 2, one)


Interp.p_eigh = p_eigh
Interp.p_svd = p_svd
Interp.p_qr = p_qr


# ------------------------------------------------------------------- contracts
def mm(A, B):
  A = np.asarray(A, dtype=object)
  B = np.asarray(B, dtype=object)
  out = np.empty((A.shape[0], B.shape[1]), dtype=object)
  for i in range(A.shape[0]):
    for j in range(B.shape[1]):
      acc = Fraction(0)
      for k in range(A.shape[1]):
        acc = R.s_add(acc, R.s_mul(A[i, k], B[k, j]))
      out[i, j] = acc
  return out


def zl(x):
  return x if is_z3(x) else R.rlit(x)


def eq_facts(A, B):
  return [zl(a) == zl(b) for a, b in zip(np.asarray(A, dtype=object).reshape(-1),
                                         np.asarray(B, dtype=object).reshape(-1))]


def eigh_facts(rec, level='cheap', psd=True):
  """Contract facts about an `eigh` stub application (ascending eigenvalues)."""
  a, w, V = rec['a'], rec['w'], rec['V']
  n = len(w)
  f = []
  if level == 'free':
    return f
  f += [zl(w[i]) <= zl(w[i + 1]) for i in range(n - 1)]
  if psd:
    f.append(zl(w[0]) >= 0)
  tr = Fraction(0)
  for i in range(n):
    tr = R.s_add(tr, a[i, i])
  sw = Fraction(0)
  for i in range(n):
    sw = R.s_add(sw, w[i])
  f.append(zl(tr) == zl(sw))
  if n == 2:
    det = R.s_sub(R.s_mul(a[0, 0], a[1, 1]), R.s_mul(a[0, 1], a[1, 0]))
    f.append(zl(det) == zl(R.s_mul(w[0], w[1])))
  for j in range(n):
    nn = Fraction(0)
    for i in range(n):
      nn = R.s_add(nn, R.s_mul(V[i, j], V[i, j]))
    f.append(zl(nn) == 1)
  if level == 'cheap':
    return f
  # full: orthonormal + A V = V diag(w)
  VtV = mm(V.T, V)
  f += eq_facts(VtV, np.array([[Fraction(int(i == j)) for j in range(n)] for i in range(n)], dtype=object))
  AV = mm(a, V)
  VW = np.empty((n, n), dtype=object)
  for i in range(n):
    for j in range(n):
      VW[i, j] = R.s_mul(V[i, j], w[j])
  f += eq_facts(AV, VW)
  return f


def svd_facts(rec, level='cheap'):
  a, s, U, Vt = rec['a'], rec['s'], rec['U'], rec['Vt']
  k = len(s)
  f = []
  if level == 'free':
    return f
  f += [zl(s[i]) >= zl(s[i + 1]) for i in range(k - 1)] + [zl(s[k - 1]) >= 0]
  if level == 'order':
    return f
  # sum of squares of singular values = squared Frobenius norm
  fro = Fraction(0)
  for x in a.reshape(-1):
    fro = R.s_add(fro, R.s_mul(x, x))
  ss = Fraction(0)
  for x in s:
    ss = R.s_add(ss, R.s_mul(x, x))
  if k == min(a.shape):
    f.append(zl(fro) == zl(ss))
  if level == 'cheap':
    return f
  I = np.array([[Fraction(int(i == j)) for j in range(k)] for i in range(k)], dtype=object)
  f += eq_facts(mm(U.T, U), I)
  f += eq_facts(mm(Vt, Vt.T), I)
  US = np.empty(U.shape, dtype=object)
  for i in range(U.shape[0]):
    for j in range(k):
      US[i, j] = R.s_mul(U[i, j], s[j])
  f += eq_facts(mm(US, Vt), a)
  return f


def qr_facts(rec, level='gram'):
  """R^T R = A^T A (all that FD needs from QR); 'full' adds Q orthonormal, QR = A."""
  a, Q, Rm = rec['a'], rec['Q'], rec['R']
  f = eq_facts(mm(Rm.T, Rm), mm(a.T, a))
  if level == 'full':
    k = Q.shape[1]
    I = np.array([[Fraction(int(i == j)) for j in range(k)] for i in range(k)], dtype=object)
    f += eq_facts(mm(Q.T, Q), I)
    f += eq_facts(mm(Q, Rm), a)
  return f
