"""SPMD evaluation of a jaxpr traced with axis_env=[(name, D)].

One evaluator per device index, run in lock-step threads.  A z3 context is not
thread-safe, so exactly one thread runs at a time (global lock), released only
while waiting at a collective's barrier.
"""
import threading
import traceback
import numpy as np

from .interp import Interp, Ctx, toobj, is_sym, vec, Unsupported

_BIG = threading.Lock()


class _Group:
  def __init__(self, D):
    self.D = D
    self.bar = threading.Barrier(D)
    self.slots = {}


class DevInterp(Interp):
  def __init__(self, ctx, group, d, axis_name):
    super().__init__(ctx)
    self.g = group
    self.dev = d
    self.axis_name = axis_name
    self.k = 0

  def _exchange(self, value):
    """all devices deposit `value`; returns the list ordered by device index"""
    self.k += 1
    key = self.k
    self.g.slots.setdefault(key, {})[self.dev] = value
    if self.g.D > 1:
      _BIG.release()
      try:
        self.g.bar.wait()
      finally:
        _BIG.acquire()
    out = [self.g.slots[key][j] for j in range(self.g.D)]
    if self.g.D > 1:
      _BIG.release()
      try:
        self.g.bar.wait()
      finally:
        _BIG.acquire()
    return out

  def eqn(self, eqn, ins):
    name = eqn.primitive.name
    if name in ('axis_index', 'all_gather', 'psum', 'pmax', 'pmin', 'psum_invariant', 'all_gather_invariant'):
      self.eqn_count += 1
      self.prims_seen.add(name)
      return getattr(self, 'c_' + name)(eqn, ins)
    return super().eqn(eqn, ins)

  def c_axis_index(self, e, i):
    return np.asarray(self.dev, dtype=np.int32)

  def c_all_gather(self, e, i):
    ax = e.params.get('all_gather_dimension', 0)
    tiled = e.params.get('tiled', False)
    parts = self._exchange(toobj(i[0]))
    if tiled:
      return [np.concatenate(parts, axis=ax)] if e.primitive.multiple_results else np.concatenate(parts, axis=ax)
    out = np.stack(parts, axis=ax)
    return [out] if e.primitive.multiple_results else out
  c_all_gather_invariant = c_all_gather

  def _reduce_coll(self, e, i, f):
    outs = []
    for x in i:
      if not is_sym(x) and np.asarray(x).dtype != object:
        # concrete operand (e.g. psum(1)): every device contributes the same constant
        parts = self._exchange(np.asarray(x))
      else:
        parts = self._exchange(toobj(x))
      acc = parts[0]
      for p in parts[1:]:
        acc = vec(f, acc, p) if (is_sym(acc) or is_sym(p)) else f(acc, p)
      outs.append(acc)
    return outs if e.primitive.multiple_results else outs[0]

  def c_psum(self, e, i):
    def add(a, b):
      if isinstance(a, np.ndarray) and a.dtype != object and isinstance(b, np.ndarray) and b.dtype != object:
        return a + b
      return self.D.s_add(a, b)
    return self._reduce_coll(e, i, add)
  c_psum_invariant = c_psum

  def c_pmax(self, e, i):
    return self._reduce_coll(e, i, lambda a, b: np.maximum(a, b) if not is_sym(a) and not is_sym(b) and np.asarray(a).dtype != object else self.D.s_max(a, b))

  def c_pmin(self, e, i):
    return self._reduce_coll(e, i, lambda a, b: np.minimum(a, b) if not is_sym(a) and not is_sym(b) and np.asarray(a).dtype != object else self.D.s_min(a, b))


def fp_dev_interp(ftz=False):
  from .fpinterp import FPInterp

  class FPDevInterp(DevInterp, FPInterp):
    def __init__(self, ctx, group, d, axis_name):
      FPInterp.__init__(self, ctx, ftz=ftz)
      self.g, self.dev, self.axis_name, self.k = group, d, axis_name, 0
  return FPDevInterp


def eval_spmd(jaxpr, consts, per_device_args, D, axis_name='batch', ctx_factory=None, interp_cls=DevInterp):
  """evaluate closed jaxpr on D devices; per_device_args[d] = list of input arrays.
  Returns (outs[d], interps[d])."""
  group = _Group(D)
  outs = [None] * D
  interps = [None] * D
  errs = []

  def workfn(d):
    _BIG.acquire()
    try:
      I = interp_cls(ctx_factory(d) if ctx_factory else Ctx(name=f'd{d}_'), group, d, axis_name)
      interps[d] = I
      outs[d] = I.eval(jaxpr, consts, *per_device_args[d])
    except BaseException:
      errs.append(traceback.format_exc())
      try:
        group.bar.abort()
      except Exception:
        pass
    finally:
      _BIG.release()

  if D == 1:
    workfn(0)
  else:
    th = [threading.Thread(target=workfn, args=(d,)) for d in range(D)]
    for t in th:
      t.start()
    for t in th:
      t.join()
  if errs:
    first = [e for e in errs if 'BrokenBarrierError' not in e] or errs
    raise Unsupported('SPMD evaluation failed: ' + first[0][-1500:])
  return outs, interps
