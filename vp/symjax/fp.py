"""FP32 scalar domain (bit-precise IEEE-754 binary32, QF_FP) for the jaxpr evaluator.

float32 -> z3 FloatingPoint(8, 24); integers stay mathematical Ints (counters,
exponents) unless a harness asks otherwise; bool -> Bool.  Round-to-nearest-even.
No algebraic simplification is applied (0*x is NOT 0: x may be NaN/Inf).
`FTZ = True` flushes subnormal operands and results of arithmetic to signed zero,
which is what XLA:CPU does.
"""
import math
import operator
import numpy as np
import z3

F32 = z3.Float32()
RNE = z3.RNE()
FTZ = False


def is_z3(x):
  return isinstance(x, z3.ExprRef)


def is_fp(x):
  return is_z3(x) and isinstance(x, z3.FPRef)


def lift(x):
  """numpy / python scalar -> python bool / int / np.float32 (kept concrete)"""
  if is_z3(x):
    return x
  if isinstance(x, (bool, np.bool_)):
    return bool(x)
  if isinstance(x, (int, np.integer)):
    return int(x)
  if isinstance(x, (float, np.floating)):
    return np.float32(x)
  raise TypeError(type(x))


def fpv(x):
  """concrete float -> FP literal"""
  if is_z3(x):
    if x.sort() == z3.IntSort():
      return z3.fpToFP(RNE, z3.ToReal(x), F32)
    return x
  x = float(np.float32(x))
  if math.isnan(x):
    return z3.fpNaN(F32)
  if math.isinf(x):
    return z3.fpPlusInfinity(F32) if x > 0 else z3.fpMinusInfinity(F32)
  if x == 0.0 and math.copysign(1.0, x) < 0:
    return z3.fpMinusZero(F32)
  return z3.FPVal(x, F32)


def val(x):
  if isinstance(x, (bool, int)):
    return x
  if isinstance(x, (float, np.floating)):
    return x
  if not is_z3(x):
    return None
  if z3.is_true(x):
    return True
  if z3.is_false(x):
    return False
  if z3.is_int_value(x):
    return x.as_long()
  return None


def isfloat(x):
  return isinstance(x, (float, np.floating)) or is_fp(x)


_FLUSHED = {}      # id of a term -> its flushed form (kept alive so ids stay unique)
_IS_FLUSHED = set()


def ftz(x):
  if not FTZ or not is_fp(x):
    return x
  k = x.get_id()
  if k in _IS_FLUSHED:
    return x
  hit = _FLUSHED.get(k)
  if hit is not None:
    return hit[1]
  if z3.is_fp_value(x):
    r = x
    if x.isSubnormal():
      r = z3.fpMinusZero(F32) if x.isNegative() else z3.fpPlusZero(F32)
  else:
    r = z3.If(z3.fpIsSubnormal(x), z3.If(z3.fpIsNegative(x), z3.fpMinusZero(F32), z3.fpPlusZero(F32)), x)
  _FLUSHED[k] = (x, r)
  _IS_FLUSHED.add(r.get_id())
  return r


def _cftz(x):
  """flush a concrete float32"""
  x = np.float32(x)
  if FTZ and x != 0 and abs(x) < np.finfo(np.float32).tiny:
    return np.float32(math.copysign(0.0, float(x)))
  return x


def _arith(zop, nop):
  def f(a, b):
    fa, fb = isfloat(a), isfloat(b)
    if not fa and not fb:   # integer arithmetic (mathematical)
      if not is_z3(a) and not is_z3(b):
        return nop(a, b)
      return nop(_i(a), _i(b))
    if not is_z3(a) and not is_z3(b):
      with np.errstate(all='ignore'):
        return _cftz(nop(_cftz(np.float32(a)), _cftz(np.float32(b))))
    return ftz(zop(RNE, ftz(fpv(a)), ftz(fpv(b))))
  return f


def _i(x):
  return x if is_z3(x) else z3.IntVal(int(x))


s_add = _arith(z3.fpAdd, operator.add)
s_sub = _arith(z3.fpSub, operator.sub)
s_mul = _arith(z3.fpMul, operator.mul)


def s_div(a, b):
  if not is_z3(a) and not is_z3(b):
    with np.errstate(all='ignore'):
      return _cftz(np.float32(_cftz(a)) / np.float32(_cftz(b)))
  return ftz(z3.fpDiv(RNE, ftz(fpv(a)), ftz(fpv(b))))


def s_neg(a):
  if not is_z3(a):
    return -a
  if is_fp(a):
    return z3.fpNeg(a)
  return -a


def s_abs(a):
  if not is_z3(a):
    return abs(a)
  if is_fp(a):
    return z3.fpAbs(a)
  return z3.If(a >= 0, a, -a)


def s_if(c, a, b):
  vc = val(c)
  if vc is True:
    return a
  if vc is False:
    return b
  if is_z3(a) and is_z3(b) and a.eq(b):
    return a
  if isinstance(a, bool) or isinstance(b, bool) or (is_z3(a) and a.sort() == z3.BoolSort()) or (is_z3(b) and b.sort() == z3.BoolSort()):
    a2 = a if is_z3(a) else z3.BoolVal(bool(a))
    b2 = b if is_z3(b) else z3.BoolVal(bool(b))
    if not is_z3(a) and not is_z3(b):
      if a == b:
        return bool(a)
      return c if a else z3.Not(c)
    return z3.If(c, a2, b2)
  if isfloat(a) or isfloat(b):
    if not is_z3(a) and not is_z3(b) and (np.float32(a).tobytes() == np.float32(b).tobytes()):
      return a
    return z3.If(c, fpv(a), fpv(b))
  if not is_z3(a) and not is_z3(b) and a == b:
    return a
  return z3.If(c, _i(a), _i(b))


def _cmp(zop, nop):
  def f(a, b):
    if not is_z3(a) and not is_z3(b):
      with np.errstate(all='ignore'):
        return bool(nop(a, b))
    if isfloat(a) or isfloat(b):
      return zop(ftz(fpv(a)), ftz(fpv(b)))
    return nop(_i(a), _i(b))
  return f


s_eq = _cmp(z3.fpEQ, operator.eq)
s_lt = _cmp(z3.fpLT, operator.lt)
s_le = _cmp(z3.fpLEQ, operator.le)
s_gt = _cmp(z3.fpGT, operator.gt)
s_ge = _cmp(z3.fpGEQ, operator.ge)


def s_ne(a, b):
  if not is_z3(a) and not is_z3(b):
    return bool(a != b)
  if isfloat(a) or isfloat(b):
    return z3.Not(z3.fpEQ(ftz(fpv(a)), ftz(fpv(b))))
  return _i(a) != _i(b)


def s_max(a, b):
  # XLA max: NaN if either is NaN
  if not is_z3(a) and not is_z3(b):
    with np.errstate(all='ignore'):
      return np.maximum(a, b) if isfloat(a) or isfloat(b) else max(a, b)
  if isfloat(a) or isfloat(b):
    x, y = fpv(a), fpv(b)
    return z3.If(z3.Or(z3.fpIsNaN(x), z3.fpIsNaN(y)), z3.fpNaN(F32), z3.If(z3.fpGEQ(x, y), x, y))
  return z3.If(_i(a) >= _i(b), _i(a), _i(b))


def s_min(a, b):
  if not is_z3(a) and not is_z3(b):
    with np.errstate(all='ignore'):
      return np.minimum(a, b) if isfloat(a) or isfloat(b) else min(a, b)
  if isfloat(a) or isfloat(b):
    x, y = fpv(a), fpv(b)
    return z3.If(z3.Or(z3.fpIsNaN(x), z3.fpIsNaN(y)), z3.fpNaN(F32), z3.If(z3.fpLEQ(x, y), x, y))
  return z3.If(_i(a) <= _i(b), _i(a), _i(b))


def s_and(a, b):
  va, vb = val(a), val(b)
  if va is False or vb is False:
    return False
  if va is True:
    return b
  if vb is True:
    return a
  return z3.And(a, b)


def s_or(a, b):
  va, vb = val(a), val(b)
  if va is True or vb is True:
    return True
  if va is False:
    return b
  if vb is False:
    return a
  return z3.Or(a, b)


def s_not(a):
  va = val(a)
  if va is not None:
    return not va
  if z3.is_not(a):
    return a.arg(0)
  return z3.Not(a)


def s_sign(a):
  if not is_z3(a):
    return np.sign(a)
  if is_fp(a):
    one = z3.FPVal(1.0, F32)
    return z3.If(z3.fpIsNaN(a), a, z3.If(z3.fpGT(a, fpv(0.0)), one, z3.If(z3.fpLT(a, fpv(0.0)), z3.fpNeg(one), a)))
  return z3.If(a > 0, 1, z3.If(a < 0, -1, 0))


def s_floor(a):
  if not is_z3(a):
    return np.floor(a)
  return z3.fpRoundToIntegral(z3.RTN(), a)


def s_round_even(a):
  if not is_z3(a):
    return np.float32(np.round(np.float32(a)))
  return z3.fpRoundToIntegral(z3.RNE(), a)


def s_sqrt(a):
  if not is_z3(a):
    with np.errstate(all='ignore'):
      return _cftz(np.sqrt(np.float32(a)))
  return ftz(z3.fpSqrt(RNE, ftz(a)))


def s_isnan(a):
  if not is_z3(a):
    return bool(np.isnan(a))
  return z3.fpIsNaN(a)


def s_isfinite(a):
  if not is_z3(a):
    return bool(np.isfinite(a))
  if is_fp(a):
    return z3.Not(z3.Or(z3.fpIsNaN(a), z3.fpIsInf(a)))
  return True


def s_idiv(a, b):
  from . import real as R
  return R.s_idiv(a, b)


def s_irem(a, b):
  from . import real as R
  return R.s_irem(a, b)


def s_ipow(a, y):
  if y == 0:
    return np.float32(1.0) if isfloat(a) else 1
  r = None
  for _ in range(abs(y)):
    r = a if r is None else s_mul(r, a)
  return r if y > 0 else s_div(np.float32(1.0), r)


def bits_equal(a, b):
  """bit-for-bit equality (NaN payloads identified): SMT-LIB `=` on FloatingPoint"""
  if not is_z3(a) and not is_z3(b):
    if isfloat(a) or isfloat(b):
      x, y = np.float32(a), np.float32(b)
      return bool(x.tobytes() == y.tobytes() or (np.isnan(x) and np.isnan(y)))
    return a == b
  if isfloat(a) or isfloat(b):
    return fpv(a) == fpv(b)
  if isinstance(a, bool) or isinstance(b, bool):
    a = a if is_z3(a) else z3.BoolVal(a)
    b = b if is_z3(b) else z3.BoolVal(b)
    return a == b
  return _i(a) == _i(b)
