"""Concrete-leaning evaluator used by the differential (translator validation) runs:
same handlers as the Real domain, but sqrt/pow/exp/log are computed numerically and
stubs are bound to the real routines."""
from fractions import Fraction
import math
import numpy as np
import jax.numpy as jnp

from .interp import Interp, toobj, vec, Unsupported
from . import stubs
from .real import is_z3


def _fl(a):
  if is_z3(a):
    raise Unsupported('symbolic term in concrete evaluator')
  return float(a)


def tofloat(a, dtype=np.float64):
  a = toobj(a)
  out = np.zeros(a.shape, dtype=dtype)
  for idx in np.ndindex(a.shape):
    out[idx] = _fl(a[idx])
  return out


class ConcreteInterp(Interp):
  def sqrt(self, a):
    return Fraction(math.sqrt(_fl(a)))

  def pow(self, a, b):
    return Fraction(math.pow(_fl(a), _fl(b)))

  def p_exp(self, e, i):
    return vec(lambda a: Fraction(math.exp(_fl(a))), *i)

  def p_log(self, e, i):
    return vec(lambda a: Fraction(math.log(_fl(a))), *i)

  def p_symstub(self, e, ins):
    name = e.params['name']
    f = stubs.CONCRETE_IMPL.get(name)
    if f is None:
      raise Unsupported(f'no concrete implementation registered for stub {name}')
    args = [jnp.asarray(tofloat(a, v.aval.dtype) if np.issubdtype(v.aval.dtype, np.floating)
                        else np.asarray(tofloat(a)).astype(v.aval.dtype))
            for a, v in zip(ins, e.invars)]
    outs = stubs.symstub_p.bind(*args, **e.params)
    return [toobj(np.asarray(o)) for o in outs]

  def _np(self, e, ins):
    return jnp.asarray(tofloat(ins[0], e.invars[0].aval.dtype))

  def p_eigh(self, e, ins):
    outs = e.primitive.bind(self._np(e, ins), **e.params)
    return [toobj(np.asarray(o)) for o in outs]

  p_svd = p_eigh
  p_qr = p_eigh
