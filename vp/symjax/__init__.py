from .interp import Interp, Ctx, sym_like, toobj, is_sym, vec, trace, count_eqns, Unsupported
from . import real, stubs
