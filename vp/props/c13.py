"""C13 — device-count invariance of the distributed preconditioner computation.

The real update is traced with batch_axis_name='batch' under axis_env=[('batch', D)]
and evaluated SPMD (one symbolic evaluator per device, real collectives semantics)
on REPLICATED symbolic state and gradients; every device's outputs must equal the
D=1 evaluation.  Roots are uninterpreted functions of the unpadded block.
"""
from fractions import Fraction
import json
import time
import numpy as np
import z3
import jax
import jax.numpy as jnp

from .. import dsh
from ..symjax import Interp, Ctx, toobj, sym_like
from ..symjax import real as R
from ..symjax.spmd import eval_spmd
from ..solve import Prover, zl, differing
from ..report import run_tasks, write_replay
from . import c02

PID = 'C13'

TREES = {
    1: [(3,)],
    2: [(2, 2)],
    3: [(2, 2), (3,)],
    4: [(2, 2), (2, 3)],
    5: [(2, 2), (3,), (2, 3)],
    6: [(2, 2), (2, 3), (3, 2)],
    7: [(2, 2), (3,), (2, 3), (3, 2)],
    9: [(2, 2), (3,), (2, 3), (3, 2), (2, 2)],
}


def tasks(tier):
  out = []
  if tier == 'quick':
    for N in (1, 2, 3, 5):
      for D in (2, 3):
        out.append(dict(mode='full', N=N, D=D))
    out.append(dict(mode='quantized', N=3, D=2))
    out.append(dict(mode='quantized', N=5, D=3))
    out.append(dict(mode='compressed', N=3, D=2))
    # non-default generate_training_metrics=False: the per-statistic errors still drive the acceptance gate on every replica
    out.append(dict(mode='full', N=3, D=2, metrics=False))
    out.append(dict(mode='full', N=5, D=3, metrics=False))
    for N, D in ((1, 2), (3, 2), (5, 3), (2, 3)):
      out.append(dict(mode='sharded', N=N, D=D))
  else:
    for N in (1, 2, 3, 4, 5, 7):
      for D in (2, 3, 4, 5):
        out.append(dict(mode='sharded', N=N, D=D))
    for N in TREES:
      for D in (2, 3, 4, 5):
        out.append(dict(mode='full', N=N, D=D))
    for N in (2, 3, 5, 7):
      for D in (2, 3, 4):
        out.append(dict(mode='quantized', N=N, D=D))
    for N in (3, 5):
      for D in (2, 3, 4):
        out.append(dict(mode='compressed', N=N, D=D))
    for N in (2, 3, 5, 7):
      for D in (2, 3, 4):
        out.append(dict(mode='full', N=N, D=D, metrics=False))
    out.append(dict(mode='quantized', N=3, D=2, metrics=False))
  return out


def cfg_of(t):
  c = dict(c02.BASE, graft='RMSPROP', q=2, s=1, start=1, block_size=4, batch_axis_name='batch')
  if t['mode'] == 'quantized':
    c['memory_reduction'] = True
  if t['mode'] == 'compressed':
    c['compression_rank'] = 1
  if 'metrics' in t:
    c['metrics'] = t['metrics']
  return dsh.full_cfg(c)


def shapes_of(t):
  shapes = list(TREES[t['N']])
  if t['mode'] == 'compressed':
    # low-rank compression needs a dimension > |r| + 2
    shapes = [(5,) if sh == (3,) else sh for sh in shapes]
    if not any(max(sh) >= 4 for sh in shapes):
      shapes.append((5,))
  return shapes


def evaluate(c, shapes, D, leaves=None):
  opt = dsh.make_opt(c)
  params = dsh.zeros_tree(shapes)
  tr, state = dsh.trace_update(opt, params, axis_env=[('batch', D)])
  if leaves is None:
    leaves = tr.sym_inputs()
  outs, interps = eval_spmd(tr.jaxpr.jaxpr, tr.jaxpr.consts, [leaves] * D, D)
  return tr, leaves, outs, interps


def sharded_work(t):
  """declared num_devices_for_pjit = D versus 1 (one-device mesh; the declared count only drives padding)"""
  t0_ = time.time()
  dsh.install_root_stub()
  c = dict(c02.BASE, graft='RMSPROP', q=2, s=1, start=1, block_size=4)
  shapes = TREES[t['N']]
  D = t['D']
  tag = f"sharded|N={t['N']}|D={D}"
  params = dsh.zeros_tree(shapes)
  P = Prover(timeout_s=30, first_s=1.0)
  try:
    tr1, st1, _, _ = dsh.trace_sharded(c, params, 1)
    trD, stD, _, _ = dsh.trace_sharded(c, params, D)
  except dsh.RealCodeError as ex:
    cf = confirm(t)
    if cf is None:
      return dict(results=[], violations=[], errors=[f'{tag}: real code raised while tracing: {ex}'], configs=1)
    return dict(results=[dict(name=f'{tag}|real code raises for declared D', status='violation', kind='core', queries=0)],
                violations=[dict(key='C13:sharded:crash', what=cf['what'], replay=cf['replay'])], errors=[], configs=1)
  N = t['N']
  pool = {}
  L1 = tr1.sym_inputs(pool=pool)
  LD = []
  for nm, x in zip(trD.names, trD.flat):
    x = np.asarray(x)
    key = (nm, tuple(x.shape), str(x.dtype))
    if key in pool:
      LD.append(pool[key])
      continue
    v = sym_like('D_' + ''.join(ch if ch.isalnum() else '_' for ch in nm), x)
    if 'global_stats' in nm:
      # the first N slots are the real statistics: shared; the padding slots are independent
      one = [l for n2, l in zip(tr1.names, L1) if n2 == nm][0]
      m = min(one.shape[0], v.shape[0], N)
      v[:m] = one[:m]
    LD.append(v)
  for k, nm in enumerate(tr1.names):
    if nm.endswith('.exponents'):
      L1[k] = np.asarray(tr1.flat[k])
  for k, nm in enumerate(trD.names):
    if nm.endswith('.exponents'):
      LD[k] = np.asarray(trD.flat[k])
  g_, st_, p_ = tr1.unflatten_in(L1)
  count = st_.count.item()
  rng = [count >= 0, count <= 2 ** 31 - 2]
  u1, n1 = tr1.run(Interp(Ctx()), L1)
  uD, nD = trD.run(Interp(Ctx()), LD)
  flat = lambda tree: np.concatenate([toobj(x).reshape(-1) for x in jax.tree_util.tree_leaves(tree, is_leaf=lambda y: isinstance(y, np.ndarray))])
  P.equal(f'{tag}|updates equal the D=1 run', flat(uD), flat(u1), rng)
  P.equal(f'{tag}|local statistics (momenta, grafting accumulators, metrics) equal the D=1 run', flat(nD.stats.local_stats), flat(n1.stats.local_stats), rng)
  P.equal(f'{tag}|global statistics of the {N} real slots equal the D=1 run', nD.stats.global_stats.statistics[:N].reshape(-1),
          n1.stats.global_stats.statistics[:N].reshape(-1), rng)
  P.equal(f'{tag}|global preconditioners of the {N} real slots equal the D=1 run', nD.stats.global_stats.preconditioners[:N].reshape(-1),
          n1.stats.global_stats.preconditioners[:N].reshape(-1), rng)
  P.equal(f'{tag}|count', nD.count, n1.count, rng)
  ok = nD.stats.global_stats.statistics.shape[0] % D == 0
  P.results.append(dict(name=f'{tag}|number of global slots is a multiple of D', kind='core', queries=0, status='unsat' if ok else 'sat'))
  P.reach(f'{tag}|twin: assumptions satisfiable', rng, [zl(L1[0].reshape(-1)[0]) != 0])
  res, viol = [], []
  confirmed = None
  for r in P.results:
    r = dict(r)
    if r['status'] in ('sat', 'unknown') and r.get('kind', 'core') == 'core':
      if confirmed is None:
        confirmed = confirm(t) or False
      if confirmed:
        r['status'] = 'violation'
        viol.append(dict(key='C13:sharded', what=confirmed['what'], replay=confirmed['replay']))
      elif r['status'] == 'sat':
        r['status'] = 'spurious'
        r['note'] = 'candidate counterexample did not reproduce on the real code'
    res.append(r)
  return dict(results=res, violations=viol, errors=[], configs=1,
              samples=[dict(task=t, shapes=[list(s) for s in shapes], jaxpr_eqns_D1=tr1.n_eqns, jaxpr_eqns_D=trD.n_eqns)],
              extra=dict(jaxpr_eqns_total=tr1.n_eqns + trD.n_eqns, eval_s=round(time.time() - t0_, 2)))


def sharded_concrete(t):
  """real sharded optimizer under a one-device mesh: declared D devices versus 1"""
  c = dict(c02.BASE, graft='RMSPROP', q=2, s=1, start=1, block_size=4)
  shapes = TREES[t['N']]
  rng = np.random.RandomState(0)
  params = {f'p{i}': jnp.asarray(rng.randn(*sh), jnp.float32) for i, sh in enumerate(shapes)}
  dsh.uninstall_root_stub()
  try:
    runs = []
    for D in (1, t['D']):
      try:
        tr, state, opt, mesh = dsh.trace_sharded(c, params, D)
      except Exception as ex:
        return f'sharded update with num_devices_for_pjit={D} raises {type(ex).__name__}: {str(ex)[:200]}'
      r = np.random.RandomState(1)
      outs = []
      with mesh:
        upd = jax.jit(opt.update)
        for step in range(4):
          g = {k: jnp.asarray(r.randn(*v.shape), jnp.float32) for k, v in params.items()}
          u, state = upd(g, state, params)
          outs.append(jax.tree_util.tree_map(np.asarray, u))
      runs.append(outs)
    for step, (a, b) in enumerate(zip(*runs)):
      for k in a:
        if not np.allclose(a[k], b[k], rtol=1e-3, atol=1e-5):
          return f'step {step}: update of {k} with {t["D"]} declared devices {b[k].reshape(-1)[:4]} differs from 1 device {a[k].reshape(-1)[:4]}'
    return None
  finally:
    dsh.install_root_stub()


def work(t):
  if t['mode'] == 'sharded':
    return sharded_work(t)
  t0_ = time.time()
  dsh.install_root_stub()
  if t['mode'] == 'compressed':
    from .c05 import install_lowrank_stubs
    install_lowrank_stubs()
  c = cfg_of(t)
  shapes = shapes_of(t)
  D = t['D']
  tag = f"pmap|{t['mode']}|N={t['N']}|D={D}" + ('' if 'metrics' not in t else f"|generate_training_metrics={t['metrics']}")
  try:
    tr1, leaves, outs1, _ = evaluate(c, shapes, 1)
    trD, _, outsD, interps = evaluate(c, shapes, D, leaves)
  except dsh.RealCodeError as ex:
    cf = confirm(t)
    if cf is None:
      return dict(results=[], violations=[], errors=[f'{tag}: real code raised while tracing but the pmap replay passed: {ex}'], configs=1)
    return dict(results=[dict(name=f'{tag}|real code raises when traced for D devices', status='violation', kind='core', queries=0, note=str(ex)[:300])],
                violations=[dict(key=f"C13:{t['mode']}:crash", what=cf['what'], replay=cf['replay'])], errors=[], configs=1)
  g_, st_, p_ = tr1.unflatten_in(leaves)
  count = st_.count.item()
  rng = [count >= 0, count <= 2 ** 31 - 2]
  P = Prover(timeout_s=30, first_s=1.0)
  ref = outs1[0]
  nstat = sum(len(jax.tree_util.tree_leaves(s.statistics, is_leaf=lambda x: isinstance(x, np.ndarray))) > 0 and len(s.statistics)
              for s in st_.stats.values())
  P.results.append(dict(name=f'{tag}|tree gives N={t["N"]} statistics', kind='core', queries=0,
                        status='unsat' if (nstat == t['N'] or t['mode'] == 'compressed') else 'sat', note=f'{nstat} statistics'))
  names = None
  for d in range(D):
    if len(outsD[d]) != len(ref):
      P.results.append(dict(name=f'{tag}|device {d}: same number of output leaves', kind='core', queries=0, status='sat'))
      continue
    # leaf by leaf (stop at the first leaf that is not proved equal: the pmap replay arbitrates)
    bad = None
    nq = 0
    for li, (xa, xb) in enumerate(zip(outsD[d], ref)):
      sub = Prover(timeout_s=15, first_s=3.0)
      r_ = sub.equal(f'leaf {li}', toobj(xa).reshape(-1), toobj(xb).reshape(-1), rng, force=True)
      nq += sub.queries
      P.queries += sub.queries
      P.solver_s += sub.solver_s
      if not r_.ok:
        bad = (li, r_['status'])
        break
    P.results.append(dict(name=f'{tag}|device {d}: all {len(ref)} output leaves (updates and new state) equal the single-device run',
                          status='unsat' if bad is None else 'sat', kind='core', queries=nq, cases=len(ref),
                          note='' if bad is None else f'output leaf {bad[0]} not proved equal ({bad[1]})'))
  P.reach(f'{tag}|twin: assumptions satisfiable', rng, [zl(leaves[0].reshape(-1)[0]) != 0])
  res, viol = [], []
  confirmed = None
  for r in P.results:
    r = dict(r)
    if r['status'] in ('sat', 'unknown') and r.get('kind', 'core') == 'core':
      if confirmed is None:
        confirmed = confirm(t) or False
      if confirmed:
        r['status'] = 'violation'
        viol.append(dict(key=f"C13:{t['mode']}", what=confirmed['what'], replay=confirmed['replay']))
      elif r['status'] == 'sat':
        r['status'] = 'spurious'
        r['note'] = 'candidate counterexample did not reproduce on the real code'
    res.append(r)
  return dict(results=res, violations=viol, errors=[], configs=1,
              samples=[dict(task=t, shapes=[list(s) for s in shapes], jaxpr_eqns_D1=tr1.n_eqns, jaxpr_eqns_D=trD.n_eqns,
                            output_leaves=len(ref))],
              extra=dict(jaxpr_eqns_total=tr1.n_eqns + trD.n_eqns, eval_s=round(time.time() - t0_, 2)))


# ------------------------------------------------------------------------- replay
REPLAY_SRC = r'''
import os, sys, json
os.environ['XLA_FLAGS'] = '--xla_force_host_platform_device_count=%(D)d'
os.environ['JAX_PLATFORMS'] = 'cpu'
import numpy as np, jax, jax.numpy as jnp
sys.path.insert(0, '/verif'); sys.path.insert(0, os.environ.get('VP_REPO', '/repo'))
from vp import dsh
from vp.props import c13
t = json.loads(sys.argv[1])
c = c13.cfg_of(t); shapes = c13.shapes_of(t); D = t['D']
opt = dsh.make_opt(c)
rng = np.random.RandomState(0)
params = {f'p{i}': jnp.asarray(rng.randn(*sh), jnp.float32) for i, sh in enumerate(shapes)}
class RealCrash(Exception):
  pass


def run(ndev, fault=None):
  devs = jax.devices()[:ndev]
  rep = lambda x: jax.tree_util.tree_map(lambda a: jnp.stack([jnp.asarray(a)] * len(devs)), x)
  init = jax.pmap(opt.init, axis_name='batch', devices=devs)
  upd = jax.pmap(opt.update, axis_name='batch', devices=devs)
  try:
    st = init(rep(params))
  except Exception as ex:
    raise RealCrash(f'init under pmap over {ndev} devices raises {type(ex).__name__}: {str(ex)[:200]}')
  r = np.random.RandomState(1)
  outs = []
  for step in range(4):
    g = {k: jnp.asarray(r.randn(*v.shape), jnp.float32) for k, v in params.items()}
    if fault is not None and step == fault[0]:
      k = sorted(g)[fault[1] %% len(g)]
      g[k] = jnp.full_like(g[k], fault[2])
    try:
      u, st = upd(rep(g), st, rep(params))
    except Exception as ex:
      raise RealCrash(f'update under pmap over {ndev} devices raises {type(ex).__name__}: {str(ex)[:200]}')
    outs.append(jax.tree_util.tree_map(np.asarray, (u, st)))
  return outs
# histories: benign; a NaN / overflowing gradient for one parameter at one step (its roots fail, the others' must still be
# accepted or rejected identically on every device)
msg = None
for fault in (None, (1, -1, float('nan')), (2, 0, float('nan')), (1, 1, 3e38)):
 if msg: break
 try:
  a, b = run(1, fault), run(D, fault)
 except RealCrash as ex:
  print(json.dumps(str(ex)))
  sys.exit(0)
 ftxt = '' if fault is None else f' (history with gradient of parameter #{fault[1]} set to {fault[2]} at step {fault[0]})'
 for step, (x, y) in enumerate(zip(a, b)):
   lx, ly = jax.tree_util.tree_leaves(x), jax.tree_util.tree_leaves(y)
   for k, (p, q) in enumerate(zip(lx, ly)):
     for d in range(D):
       pv, qv = np.asarray(p[0], np.float64), np.asarray(q[d], np.float64)
       if pv.shape != qv.shape or not np.allclose(pv, qv, rtol=1e-3, atol=1e-5, equal_nan=True):
         msg = f'step {step}: output leaf {k} on device {d} of {D} differs from the single-device run: {qv.reshape(-1)[:4]} vs {pv.reshape(-1)[:4]}' + ftxt
         break
     if msg: break
   if msg: break
print(json.dumps(msg))
'''


def concrete(t):
  """real jax.pmap over forced host devices: D devices versus one device"""
  if t['mode'] == 'sharded':
    return sharded_concrete(t)
  import subprocess, sys, os
  env = dict(os.environ)
  env.pop('XLA_FLAGS', None)
  out = subprocess.run([sys.executable, '-c', REPLAY_SRC % dict(D=t['D']), json.dumps(t)], capture_output=True, text=True, env=env)
  try:
    return json.loads(out.stdout.strip().splitlines()[-1])
  except Exception:
    return None    # the replay harness itself failed: inconclusive, never a violation


def confirm(t):
  what = concrete(t)
  if what:
    path = write_replay(PID, dict(property=PID, task=t, observed=what))
    return dict(what=what, replay=path)
  return None


def replay(path):
  d = json.load(open(path))
  what = concrete(d['task'])
  if what:
    print(f'VIOLATION property={PID} replay={path}')
    print('  ' + what)
    return 1
  print('replay: D-device run equals the single-device run')
  return 0


def run(rep):
  rep.explanation = (
      'Bounded SMT verification (z3) of device-count invariance: the jaxpr of the real update traced with batch_axis_name under '
      'axis_env=[(batch, D)] is evaluated SPMD on replicated symbolic inputs (axis_index, psum, all_gather given their collective '
      'semantics across D symbolic evaluators) and every device\'s updates and new state are proved equal, for all states/gradients/'
      'step counters, to the D=1 evaluation; roots are uninterpreted functions of the unpadded block, so the claim is about '
      'batching, padding to a multiple of D with identity statistics, per-replica slicing, all_gather and unbatch.')
  rep.encode('precondition.distributed_shampoo.batch/unbatch/_pmap_compute_preconditioners/_pmap_quantized_compute_preconditioners/'
             '_matrix_inverse_pth_root_vmap/_quantized_matrix_inverse_pth_root_vmap/update_fn', 'precondition/distributed_shampoo.py')
  ts = tasks(rep.tier)
  rep.bounds = dict(tasks=len(ts), D=sorted({t['D'] for t in ts}), N=sorted({t['N'] for t in ts}),
                    modes=sorted({t['mode'] for t in ts}), history='one step from an arbitrary replicated state', step_counter='symbolic')
  rep.stubs = ['matrix_inverse_pth_root / _low_rank_root -> uninterpreted functions of the unpadded block and exponent']
  rep.assumptions = ['exact real arithmetic (int16 quantisation uses exact round-half-even)', 'inputs replicated across devices',
                     'root routine padding invariant']
  rep.outside = ['real multi-device execution / XLA collectives (used only in replays)', 'sharded variant on a real multi-device mesh (a one-device mesh is used; the declared device count drives the padding)', 'D > 5']
  run_tasks('vp.props.c13', 'work', ts, report=rep)
