"""C15 — Tearfree optimizer equals its documented composition
  -lr(t) * momentum(weight decay(graft(second_order(merge and pad(g))))).

Real `tearfree(lr, options).update` traced end to end (lr symbolic), eigh/svd/qr as
stubs.  The reference is written over SMT terms from the docstrings; for the
eigendecomposition it uses the stub's own (w, V) for each (axis, block) after the
solver has shown that the matrix the code decomposed IS the reference covariance.
"""
from fractions import Fraction
import itertools
import json
import math
import time
import numpy as np
import z3
import jax
import jax.numpy as jnp

from .. import tfh
from ..symjax import Interp, Ctx, toobj
from ..symjax import real as R
from ..harness import f32, Traced
from ..solve import Prover, zl
from ..report import run_tasks, write_replay
from .ds_ref import ref_merge, arr, emap, vsum, norm, gram, contract

PID = 'C15'


def tasks(tier):
  out = []
  def T(shape, **cfg):
    out.append(dict(shape=list(shape), cfg=cfg))
  # Shampoo second order
  T((2, 2), second_order='shampoo', block_size=4, merge_dims=2, graft='NONE')
  T((2, 2), second_order='shampoo', block_size=4, merge_dims=2, graft='SGD', start=1, fs=2, fp=1, nesterov=False)
  T((2, 2), second_order='shampoo', block_size=4, merge_dims=2, graft='RMSPROP', start=0, fs=1, fp=2, ema=True, decay=1.0)
  T((4,), second_order='shampoo', block_size=2, merge_dims=2, graft='NONE', skip_rank1=False)
  T((4,), second_order='shampoo', block_size=2, merge_dims=2, graft='SGD', skip_rank1=False, start=1, weight_decay=0.125, wd_after=False)
  T((4, 2), second_order='shampoo', block_size=2, merge_dims=2, graft='RMSPROP', start=1, weight_decay=0.125, wd_after=True)
  T((3,), second_order='shampoo', block_size=2, merge_dims=2, graft='NONE', skip_rank1=False)            # padded to 4
  T((2, 2), second_order='shampoo', block_size=4, merge_dims=4, graft='SGD', start=0, lr_schedule=True)   # merged to (4,)
  T((2, 2), second_order='shampoo', block_size=4, merge_dims=2, graft='RMSPROP', start=1, momentum_decay=0.0)
  T((4,), second_order='shampoo', block_size=2, merge_dims=2, graft='SGD', skip_rank1=False, start=1, momentum_decay=0.0, weight_decay=0.125, wd_after=True)
  T((2, 2), second_order='shampoo', block_size=4, merge_dims=2, graft='NONE', momentum_decay=0.0, weight_decay=0.125, wd_after=False)
  # statistics every 2nd step, roots every 3rd: a refresh step that is not a statistics step (roots must still be recomputed)
  T((2, 2), second_order='shampoo', block_size=4, merge_dims=2, graft='NONE', fs=2, fp=3)
  # Sketchy second order
  T((3,), second_order='sketchy', sk_rank=1, merge_dims=2, graft='NONE', skip_rank1=False, decay=0.5)
  T((3,), second_order='sketchy', sk_rank=1, merge_dims=2, graft='SGD', skip_rank1=False, decay=1.0, start=1, sk_freq=2)
  T((3, 2), second_order='sketchy', sk_rank=1, merge_dims=2, graft='RMSPROP', decay=0.5, start=0, ema=True, nesterov=False)
  if tier == 'thorough':
    rng = np.random.RandomState(5)
    for i in range(48):
      so = ['shampoo', 'sketchy'][i % 3 == 2]
      sh = [(2, 2), (4,), (4, 2), (3,), (2, 2, 2), (3, 2)][rng.randint(6)]
      if so == 'sketchy' and sh in ((4, 2), (2, 2, 2)):
        sh = (3, 2)
      T(sh, second_order=so, block_size=[2, 4][rng.randint(2)], merge_dims=[2, 4][rng.randint(2)],
        graft=['NONE', 'SGD', 'RMSPROP'][rng.randint(3)], start=int(rng.randint(3)), fs=int(1 + rng.randint(3)),
        fp=int(1 + rng.randint(3)), decay=[0.875, 1.0, 0.5][rng.randint(3)], ema=bool(rng.randint(2)),
        nesterov=bool(rng.randint(2)), weight_decay=[0.0, 0.125][rng.randint(2)], wd_after=bool(rng.randint(2)),
        lr_schedule=bool(rng.randint(2)), skip_rank1=bool(rng.randint(2)), sk_rank=1, sk_freq=int(1 + rng.randint(2)),
        momentum_decay=[0.75, 0.0][rng.randint(4) == 0])
  return out


def tagof(task):
  c = task['cfg']
  return 'x'.join(map(str, task['shape'])) + '|' + ','.join(f'{k}={v}' for k, v in sorted(c.items()))


# ------------------------------------------------------------------- reference
class TFRef:
  def __init__(self, c, shape, I):
    self.c, self.shape, self.I = c, tuple(shape), I
    merged = ref_merge(shape, c['merge_dims'])
    if merged == [1]:
      merged = []
    self.merged = tuple(merged)
    b = c['block_size'] if c['second_order'] == 'shampoo' else 0
    self.b = b
    self.padded = tuple(((d + b - 1) // b) * b if (b and d >= b) else d for d in self.merged)
    self.rank = len(self.padded)

  def merge_pad(self, g):
    m = g.reshape(self.merged)
    out = arr(self.padded, Fraction(0))
    out[tuple(slice(0, d) for d in self.merged)] = m
    return out

  def unmerge(self, x):
    return x[tuple(slice(0, d) for d in self.merged)].reshape(self.shape)

  def blocks(self):
    """row-major list of blocks: per-axis (start, stop)"""
    per = []
    for d in self.padded:
      if self.b and d >= self.b:
        per.append([(s, s + self.b) for s in range(0, d, self.b)])
      else:
        per.append([(0, d)])
    return [tuple(t) for t in itertools.product(*per)]

  def ema(self, old, new):
    d = self.c['decay']
    if d == 1.0:
      return emap(lambda o, n: R.s_add(o, n), old, new)
    return emap(lambda o, n: R.s_add(R.s_mul(o, f32(d)), R.s_mul(n, f32(1 - d))), old, new)


def shampoo_reference(ref, I, P, tag, g, st, new, count, rng):
  """returns the documented preconditioned (padded) tensor, after checking statistics and roots.
  st / new: _ShampooState (old, code's new).  Uses the eigh records of the evaluator."""
  c = ref.c
  gp = ref.merge_pad(g)
  blks = ref.blocks()
  fs, fp = c['fs'], c['fp']
  on_s = True if fs == 1 else R.s_eq(R.s_irem(count, fs), 0)
  on_p = True if fp == 1 else R.s_eq(R.s_irem(count, fp), 0)
  ob, nb = st.blocks['w'], new.blocks['w']
  p = 2 * ref.rank
  recs = [r for r in I.ctx.decomps if r['kind'] == 'eigh']
  out = arr(ref.padded)
  ok_struct = len(recs) == ref.rank * len(blks)
  P.results.append(dict(name=f'{tag}|T1 one eigendecomposition per (axis, block)', status='unsat' if ok_struct else 'sat',
                        kind='core', queries=0, note=f'{len(recs)} eigh applications, expected {ref.rank * len(blks)}'))
  if not ok_struct:
    return None
  for n, blk in enumerate(blks):
    gb = gp[tuple(slice(a, b) for a, b in blk)]
    pre = gb
    for ax in range(ref.rank):
      cov_new = ref.ema(ob.stats[ax][n], gram(gb, ax))
      cov = emap(lambda a, b: R.s_if(on_s, a, b), cov_new, ob.stats[ax][n])
      P.equal(f'{tag}|T1 statistics axis {ax} block {n}', nb.stats[ax][n], cov, rng, split=[count % fs == 0] if fs > 1 else [])
      rec = recs[ax * len(blks) + n]
      P.equal(f'{tag}|T1 decomposed matrix is the updated covariance (axis {ax} block {n})', rec['a'], cov, rng,
              split=[count % fs == 0] if fs > 1 else [])
      w, V = rec['w'], rec['V']
      d = len(w)
      wmax = w[0]
      for k in range(1, d):
        wmax = R.s_max(wmax, w[k])
      root = arr((d, d), Fraction(0))
      for k in range(d):
        keep = R.s_not(R.s_le(w[k], R.s_mul(f32(1e-6), wmax)))
        # w^(-1/p) written as (w^(-1/(2p)))^2: the exponent is the float32 constant the code uses
        h = I.pow(w[k], f32(-0.5 / p))
        coef = R.s_if(keep, R.s_mul(h, h), Fraction(0))
        for i in range(d):
          for j in range(d):
            root[i, j] = R.s_add(root[i, j], R.s_mul(coef, R.s_mul(V[i, k], V[j, k])))
      want = emap(lambda a, b: R.s_if(on_p, a, b), root, ob.roots[ax][n])
      sp = ([count % fp == 0] if fp > 1 else []) + [zl(w[k]) <= zl(R.s_mul(f32(1e-6), wmax)) for k in range(d)]
      P.equal(f'{tag}|T1 root axis {ax} block {n} = sum_k [w_k > 1e-6 max_block w] w_k^(-1/{p}) v_k v_k^T', nb.roots[ax][n], want, rng,
              split=sp)
      # precondition with the code's new root (proved equal to `want` above)
      pre = contract(pre, nb.roots[ax][n].T, ax)
    out[tuple(slice(a, b) for a, b in blk)] = pre
  return out


def sketchy_reference(ref, I, g, new):
  """documented low-rank application with the (code's) new sketch state"""
  x = ref.merge_pad(g)
  axes = new.sketches['w'].axes
  for ax, s in enumerate(axes):
    V, inv, it = s.eigvecs, s.inv_eigvals, s.inv_tail.item()
    d, k = V.shape
    M = arr((d, d), Fraction(0))   # V diag(inv) V^T + inv_tail (I - V V^T)
    for i in range(d):
      for j in range(d):
        acc = Fraction(0)
        for kk in range(k):
          acc = R.s_add(acc, R.s_mul(R.s_mul(V[i, kk], R.s_sub(inv[kk], it)), V[j, kk]))
        M[i, j] = R.s_add(acc, it if i == j else Fraction(0))
    x = contract(x, M, ax)
  return x


def work(task):
  t0_ = time.time()
  c = tfh.full_cfg(task['cfg'])
  shape = tuple(task['shape'])
  tag = tagof(task)
  params = {'w': jnp.zeros(shape, jnp.float32)}
  errors = []
  # lr enters as a traced argument so that it is symbolic
  if c['lr_schedule']:
    tx = tfh.make_tearfree(c)
    fn = lambda lr, g, s, p: tx.update(g, s, p)
  else:
    fn = lambda lr, g, s, p: tfh.make_tearfree(c, lr_arg=lr).update(g, s, p)
  tx0 = tfh.make_tearfree(c)
  try:
    state = tfh.quiet(tx0.init, params)
    tr = Traced(fn, (jnp.asarray(0.125, jnp.float32), params, state, params), name='a')
  except Exception as ex:
    return dict(results=[], violations=[], errors=[f'{tag}: real code raised while tracing: {type(ex).__name__}: {ex}'], configs=1)
  I = Interp(Ctx())
  leaves = tr.sym_inputs()
  # covariance statistics are symmetric (invariant of the update)
  for nm, leaf in zip(tr.names, leaves):
    if '.stats' in nm and leaf.ndim == 3:
      for n in range(leaf.shape[0]):
        for i in range(leaf.shape[1]):
          for j in range(i):
            leaf[n, i, j] = leaf[n, j, i]
  lr_, g_, st_, p_ = tr.unflatten_in(leaves)
  upd, new = tr.run(I, leaves)
  lr = lr_.item()
  g, p = g_['w'], p_['w']
  graft_st, mom_st, lr_st = st_
  ngraft_st = new[0]
  P = Prover(timeout_s=30, first_s=1.0)
  ref = TFRef(c, shape, I)
  if c['graft'] == 'NONE':
    so_old, so_new = graft_st, ngraft_st
    gcount = None
  else:
    so_old, so_new = graft_st.direction, ngraft_st.direction
    gcount = graft_st.count.item()
  is_masked = c['graft'] != 'NONE' and ((c['skip_rank1'] and len(shape) <= 1) or any(s > c['skip_dim_gt'] for s in shape))
  rng = []
  for (k, v) in jax.tree_util.tree_flatten_with_path(st_, is_leaf=lambda x: isinstance(x, np.ndarray))[0]:
    if 'count' in jax.tree_util.keystr(k):
      rng += [v.item() >= 0, v.item() <= 2 ** 31 - 2]
  base = None
  if not is_masked and ref.rank > 0:
    sost_old, sost_new = so_old[1], so_new[1]
    count = sost_old.count.item()
    if c['second_order'] == 'shampoo':
      pre = shampoo_reference(ref, I, P, tag, g, sost_old, sost_new, count, rng)
    else:
      pre = sketchy_reference(ref, I, g, sost_new)
    base = ref.unmerge(pre) if pre is not None else None
  # graft
  from .c05_tf import graft_step
  if c['graft'] == 'NONE':
    gu = base
  else:
    acc = graft_st.norm.acc['w'] if c['graft'] == 'RMSPROP' else None
    gs = graft_step(c, I, g, acc)
    if is_masked or base is None:
      gu = gs
    else:
      bn, gn = norm(I, base), norm(I, gs)
      mult = R.s_if(R.s_gt(bn, 0), R.s_div(gn, bn), Fraction(0))
      gu = emap(lambda b_, s_: R.s_if(R.s_ge(gcount, c['start']), R.s_mul(b_, mult), s_), base, gs)
  if gu is not None:
    # momentum / weight decay
    beta, wd = f32(c['momentum_decay']), f32(c['weight_decay'])
    x = gu
    def add_wd(x):
      return emap(lambda a, q: R.s_add(a, R.s_mul(wd, q)), x, p) if c['weight_decay'] > 0 else x
    def momentum(x):
      if not c['momentum_decay']:
        return x
      trace_leaves = [l for k, l in jax.tree_util.tree_flatten_with_path(mom_st, is_leaf=lambda y: isinstance(y, np.ndarray))[0]
                      if 'trace' in jax.tree_util.keystr(k)]
      m = trace_leaves[0]
      if c['ema']:
        x = emap(lambda a: R.s_mul(f32(1 - c['momentum_decay']), a), x)
      v = emap(lambda a, t: R.s_add(a, R.s_mul(beta, t)), x, m)
      return emap(lambda a, vv: R.s_add(a, R.s_mul(beta, vv)), x, v) if c['nesterov'] else v
    x = add_wd(momentum(x)) if c['wd_after'] else momentum(add_wd(x))
    if c['lr_schedule']:
      lcount = [v for k, v in jax.tree_util.tree_flatten_with_path(lr_st, is_leaf=lambda y: isinstance(y, np.ndarray))[0]][0].item()
      lrt = R.s_div(f32(0.125), R.s_add(Fraction(1), z3.ToReal(lcount)))
    else:
      lrt = lr
    want = emap(lambda a: R.s_mul(R.s_neg(lrt), a), x)
    split = []
    if gcount is not None:
      split.append(gcount >= c['start'])
    P.equal(f'{tag}|T1 update = -lr*momentum(weight decay(graft(second order(merge/pad g))))', upd['w'], want, rng, split)
  # T2 linearity in the learning rate (constant lr): update(lr)*lr2 == update(lr2)*lr
  if not c['lr_schedule']:
    lr2 = z3.Real('lr_second')
    leaves2 = list(leaves)
    leaves2[0] = np.array(lr2, dtype=object)
    upd2, _ = tr.run(Interp(I.ctx), leaves2)
    P.equal(f'{tag}|T2 update is linear in the learning rate', emap(lambda a: R.s_mul(a, lr2), upd['w']),
            emap(lambda a: R.s_mul(a, lr), upd2['w']), rng)
  P.reach(f'{tag}|twin: assumptions satisfiable', rng, [zl(g.reshape(-1)[0]) != 0])
  res, viol = [], []
  confirmed = {}
  for r in P.results:
    r = dict(r)
    if r['status'] in ('sat', 'unknown') and r.get('kind', 'core') == 'core':
      cf = confirm(task, r['name'])
      if cf:
        r['status'] = 'violation'
        viol.append(dict(key=cf['key'], what=cf['what'], replay=cf['replay']))
      elif r['status'] == 'sat':
        r['status'] = 'spurious'
        r['note'] = 'candidate counterexample did not reproduce on the real code'
    res.append(r)
  return dict(results=res, violations=viol, errors=errors, configs=1,
              samples=[dict(config=task['cfg'], shape=list(shape), jaxpr_eqns=tr.n_eqns, leaves=[r['name'].split('|')[-1] for r in res][:8])],
              extra=dict(jaxpr_eqns_total=tr.n_eqns, eval_s=round(time.time() - t0_, 2)))


# ------------------------------------------------------------------------- replay
def np_root(C, p, per_block_max=None):
  w, V = np.linalg.eigh((C + C.T) / 2)
  mx = w.max() if per_block_max is None else per_block_max
  keep = w > 1e-6 * mx
  half = np.where(keep, np.where(keep, w, 1.0) ** (-0.5 / p), 0.0)
  hv = V * half[None, :]
  return hv @ hv.T


def concrete(task, seed=0, T=8, scales=None):
  """real tearfree optimizer vs float64 numpy reference over a history from init"""
  c = tfh.full_cfg(task['cfg'])
  shape = tuple(task['shape'])
  if c['second_order'] != 'shampoo':
    return None
  tx = tfh.make_tearfree(c)
  rng = np.random.RandomState(seed)
  prm = rng.randn(*shape).astype(np.float32)
  p = {'w': jnp.asarray(prm)}
  st = tfh.quiet(tx.init, p)
  ref = TFRef(c, shape, None)
  blks = ref.blocks()
  rank = ref.rank
  is_masked = c['graft'] != 'NONE' and ((c['skip_rank1'] and len(shape) <= 1) or any(s > c['skip_dim_gt'] for s in shape))
  stats = {(ax, n): np.zeros((blk[ax][1] - blk[ax][0],) * 2) for n, blk in enumerate(blks) for ax in range(rank)}
  roots = {(ax, n): np.eye(blk[ax][1] - blk[ax][0]) for n, blk in enumerate(blks) for ax in range(rank)}
  acc = np.zeros(shape)
  trace = np.zeros(shape)
  for t in range(T):
    g = rng.randn(*shape).astype(np.float32)
    if scales is not None:
      # scale blocks of the leading padded axis differently (block non-interference)
      gm = g.reshape(ref.merged).copy()
      for n, blk in enumerate(blks):
        sl = tuple(slice(a, min(b, m)) for (a, b), m in zip(blk, ref.merged))
        gm[sl] *= scales[n % len(scales)]
      g = gm.reshape(shape).astype(np.float32)
    u, st = tfh.quiet(tx.update, {'w': jnp.asarray(g)}, st, p)
    u = np.asarray(u['w'], np.float64)
    g64 = g.astype(np.float64)
    gp = np.zeros(ref.padded)
    gp[tuple(slice(0, d) for d in ref.merged)] = g64.reshape(ref.merged)
    base = None
    if not is_masked and rank > 0:
      out = np.zeros(ref.padded)
      for n, blk in enumerate(blks):
        gb = gp[tuple(slice(a, b) for a, b in blk)]
        pre = gb
        for ax in range(rank):
          if t % c['fs'] == 0:
            m = np.moveaxis(gb, ax, 0).reshape(gb.shape[ax], -1)
            G = m @ m.T
            d = c['decay']
            stats[(ax, n)] = stats[(ax, n)] + G if d == 1.0 else stats[(ax, n)] * d + G * (1 - d)
          if t % c['fp'] == 0:
            roots[(ax, n)] = np_root(stats[(ax, n)], 2 * rank)
          pre = np.moveaxis(np.tensordot(roots[(ax, n)], np.moveaxis(pre, ax, 0), axes=[[1], [0]]), 0, ax)
        out[tuple(slice(a, b) for a, b in blk)] = pre
      base = out[tuple(slice(0, d) for d in ref.merged)].reshape(shape)
    if c['graft'] == 'NONE':
      gu = base
    else:
      if c['graft'] == 'SGD':
        gs = g64
      else:
        b = c['graft_decay']
        acc = g64 * g64 + acc if b == 1.0 else g64 * g64 * (1 - b) + b * acc
        gs = g64 / np.sqrt(acc + float(np.float32(c['graft_eps'])))
      if is_masked or base is None or t < c['start']:
        gu = gs
      else:
        nb = np.linalg.norm(base)
        gu = base * (np.linalg.norm(gs) / nb) if nb > 0 else np.zeros(shape)
    if gu is None:
      return None
    x = gu
    beta, wd = c['momentum_decay'], c['weight_decay']
    def mom(x):
      nonlocal trace
      if not beta:
        return x
      if c['ema']:
        x = (1 - beta) * x
      trace = x + beta * trace
      return x + beta * trace if c['nesterov'] else trace
    x = (mom(x) + wd * prm) if c['wd_after'] else mom(x + wd * prm)
    lr = 0.125 / (1.0 + t) if c['lr_schedule'] else c['lr']
    want = -lr * x
    scale = max(np.abs(want).max(), 1e-9)
    if not np.all(np.isfinite(u)) or np.abs(u - want).max() > 2e-2 * scale:
      return f'step {t}: update {u.reshape(-1)[:6]} differs from the documented composition {want.reshape(-1)[:6]}'
  return None


def confirm(task, name):
  ob = name.split('|')[-1]
  attempts = [(0, None), (1, None), (0, [1e-3, 1e3]), (1, [1e3, 1e-3])]
  for seed, scales in attempts:
    what = concrete(task, seed, scales=scales)
    if what:
      path = write_replay(PID, dict(property=PID, task=task, seed=seed, scales=scales, observed=what, obligation=name))
      key = 'C15:shared-eigenvalue-cutoff' if scales is not None else f'C15:{ob.split(" ")[0]}:{ob.split(" ")[1] if " " in ob else ""}'
      return dict(key=key, what=what, replay=path)
  return None


def replay(path):
  d = json.load(open(path))
  what = concrete(d['task'], d['seed'], scales=d.get('scales'))
  if what:
    print(f'VIOLATION property={PID} replay={path}')
    print('  ' + what)
    return 1
  print('replay: update matches the documented composition')
  return 0


def run(rep):
  rep.explanation = (
      'Bounded SMT verification (z3, exact reals) of the jaxpr of the real tearfree(lr, options).update with a SYMBOLIC learning '
      'rate: T1 every (axis, block) covariance equals the documented decayed update on the merged/zero-padded gradient, the matrix '
      'handed to the eigendecomposition is that covariance, each stored root equals sum_k [w_k > 1e-6 max of THAT block] w_k^(-1/2rank) '
      'v_k v_k^T over the stub outputs, and the delivered update equals -lr(t)*momentum(weight decay(graft(precondition))) for all '
      'states/gradients/params/counters; T2 exact linearity in lr. Sketchy: the documented low-rank application of the new sketch '
      '(the sketch update itself is C09).')
  for f in ['optimizer.py', 'second_order.py', 'shampoo.py', 'sketchy.py', 'grafting.py', 'momentum.py', 'reshaper.py', 'praxis_shim.py']:
    rep.encode(f'precondition.tearfree.{f[:-3]} (update path)', f'precondition/tearfree/{f}')
  ts = tasks(rep.tier)
  rep.bounds = dict(configurations=len(ts), shapes=sorted({str(tuple(t['shape'])) for t in ts}), lr='symbolic real',
                    step_counters='symbolic', history='one step from an arbitrary state (symmetric covariances)')
  rep.stubs = ['eigh -> fresh (w, V) per distinct input matrix (free contract)', 'svd/qr -> fresh outputs (sketchy)',
               'pow(x, -1/p), sqrt as uninterpreted functions']
  rep.assumptions = ['exact real arithmetic', 'covariance statistics symmetric in the pre-state',
                     'eigh is a function of its input (memoised); its orthonormality is not needed for T1/T2']
  rep.outside = ['float rounding', 'AdaFactor graft (optax internals)', 'that the eigen-form equals the matrix inverse root (needs orthonormality: T4 stretch, declined)']
  run_tasks('vp.props.c15', 'work', ts, report=rep)
