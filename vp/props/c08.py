"""C08 — block-diagonal semantics: blocks and parameters do not influence each other.

2-safety by self-composition on the real update jaxprs: two symbolic evaluations that
share exactly the variables the property says an output may depend on; everything
else is independent.  Inverse roots / eigendecompositions are uninterpreted functions
of their own block, so any other dependence shows up as differing terms.
"""
from fractions import Fraction
import json
import time
import numpy as np
import z3
import jax
import jax.numpy as jnp

from .. import dsh, tfh
from ..symjax import Interp, Ctx, toobj, sym_like
from ..symjax import real as R
from ..solve import Prover, zl, differing
from ..report import run_tasks, write_replay
from . import c02

PID = 'C08'


def tasks(tier):
  out = []
  for graft in (['NONE'] if tier == 'quick' else ['NONE']):
    out.append(dict(kind='ds_blocks', shape=[4], block=2, cfg=dict(graft=graft, q=2, s=1, start=1)))
    out.append(dict(kind='ds_blocks', shape=[4, 2], block=2, cfg=dict(graft=graft, q=1, s=2, start=0)))
  out.append(dict(kind='ds_leaves', shape=[4, 2], block=2, cfg=dict(graft='NONE', q=2, s=1, start=1)))
  out.append(dict(kind='ds_leaves', shape=[4], block=2, cfg=dict(graft='NONE', q=1, s=1, start=0, exponent_override=2)))
  for graft in ('SGD', 'RMSPROP', 'ADAGRAD_NORMALIZED'):
    out.append(dict(kind='ds_companion', shape=[2, 2], companion=[3], block=4, cfg=dict(graft=graft, q=2, s=1, start=1)))
  out.append(dict(kind='ds_companion', shape=[2], companion=[3, 2], block=4, cfg=dict(graft='RMSPROP', q=1, s=1, start=0)))
  out.append(dict(kind='tf_blocks', shape=[4], block=2, cfg=dict(fs=1, fp=1)))
  out.append(dict(kind='tf_blocks', shape=[4, 2], block=2, cfg=dict(fs=2, fp=1, decay=1.0)))
  out.append(dict(kind='tf_leaves', shape=[4, 2], block=2, cfg=dict(fs=1, fp=2)))
  if tier == 'thorough':
    out.append(dict(kind='ds_blocks', shape=[4, 4], block=2, cfg=dict(graft='NONE', q=2, s=1, start=1)))
    out.append(dict(kind='ds_blocks', shape=[5], block=2, cfg=dict(graft='NONE', q=1, s=1, start=0)))
    out.append(dict(kind='ds_blocks', shape=[6], block=2, cfg=dict(graft='NONE', q=3, s=2, start=2)))
    out.append(dict(kind='ds_leaves', shape=[6], block=2, cfg=dict(graft='NONE', q=1, s=1, start=0, exponent_override=2)))
    out.append(dict(kind='ds_companion', shape=[2, 2], companion=[4, 2], block=4, cfg=dict(graft='SGD', q=1, s=1, start=0)))
    out.append(dict(kind='ds_companion', shape=[3], companion=[2, 2], block=2, cfg=dict(graft='ADAGRAD', q=2, s=2, start=1)))
    out.append(dict(kind='tf_blocks', shape=[4, 4], block=2, cfg=dict(fs=1, fp=1)))
    out.append(dict(kind='tf_blocks', shape=[6], block=2, cfg=dict(fs=1, fp=3)))
    out.append(dict(kind='tf_leaves', shape=[4], block=2, cfg=dict(fs=1, fp=1)))
  return out


def fresh_copy(leaf, suffix):
  """independent variables with the same shape/sorts as `leaf` (object array of z3 consts)"""
  out = np.empty(leaf.shape, dtype=object)
  for idx in np.ndindex(leaf.shape):
    x = leaf[idx]
    out[idx] = z3.Const(str(x) + suffix, x.sort())
  return out


def block_of_index(shape, block, idx):
  return tuple(i // block if 0 < block < d else 0 for i, d in zip(idx, shape))


def ds_cfg(t):
  return dsh.full_cfg(dict(c02.BASE, block_size=t['block'], beta1=0.75, **t['cfg']))


def eq_on(P, name, A, B, assume, sel=None):
  A, B = toobj(A), toobj(B)
  if sel is not None:
    A = np.array([A[i] for i in sel], dtype=object)
    B = np.array([B[i] for i in sel], dtype=object)
  return P.equal(name, A.reshape(-1), B.reshape(-1), assume, force=True)


def work(t):
  t0_ = time.time()
  kind = t['kind']
  shape = tuple(t['shape'])
  tag = f"{kind}|{'x'.join(map(str, shape))}|block={t['block']}|" + ','.join(f'{k}={v}' for k, v in sorted(t['cfg'].items()))
  P = Prover(timeout_s=30, first_s=1.0)
  n_eqns = 0
  if kind.startswith('ds'):
    dsh.install_root_stub()
    c = ds_cfg(t)
    opt = dsh.make_opt(c)
  if kind == 'ds_blocks':
    params = {'p0': jnp.zeros(shape, jnp.float32)}
    tr, _ = dsh.trace_update(opt, params)
    n_eqns = tr.n_eqns
    A = tr.sym_inputs()
    g_, st_, p_ = tr.unflatten_in(A)
    nblocks_axis = [max(1, -(-d // t['block'])) if 0 < t['block'] < d else 1 for d in shape]
    nblocks = int(np.prod(nblocks_axis))
    nax = len(shape)
    # B: every variable that belongs to a block other than block 0 is independent
    B = []
    for nm, leaf in zip(tr.names, A):
      leaf = toobj(leaf)
      if leaf.shape == shape and leaf.size:          # gradient, params, momenta, diagonal statistics
        nb = leaf.copy()
        fc = fresh_copy(leaf, '_B')
        for idx in np.ndindex(shape):
          if any(block_of_index(shape, t['block'], idx)):
            nb[idx] = fc[idx]
        B.append(nb)
      elif ('.statistics[' in nm or '.preconditioners[' in nm):
        k = int(nm.split('[')[-1].split(']')[0])
        B.append(leaf if k < nax else fresh_copy(leaf, '_B'))
      elif 'training_metrics' in nm and leaf.ndim == 1 and leaf.shape[0] == nblocks * nax:
        nb = leaf.copy()
        fc = fresh_copy(leaf, '_B')
        nb[nax:] = fc[nax:]
        B.append(nb)
      else:
        B.append(leaf)
    count = st_.count.item()
    rng = [count >= 0, count <= 2 ** 31 - 2]
    ua, na = tr.run(Interp(Ctx()), A)
    ub, nbst = tr.run(Interp(Ctx()), B)
    blk0 = [idx for idx in np.ndindex(shape) if not any(block_of_index(shape, t['block'], idx))]
    eq_on(P, f'{tag}|I1 update of block 0 independent of the other blocks', ua['p0'], ub['p0'], rng, blk0)
    sa, sb = na.stats['p0'], nbst.stats['p0']
    for k in range(nax):
      eq_on(P, f'{tag}|I1 statistics[{k}] of block 0', sa.statistics[k], sb.statistics[k], rng)
      eq_on(P, f'{tag}|I1 preconditioners[{k}] of block 0', sa.preconditioners[k], sb.preconditioners[k], rng)
    eq_on(P, f'{tag}|I1 momentum of block 0', sa.momentum.quantized, sb.momentum.quantized, rng, blk0)
    ga, gb = toobj(A[0]).reshape(-1), toobj(B[0]).reshape(-1)
    P.reach(f'{tag}|twin: the two runs can differ in the other blocks\' gradients', rng,
            [z3.Or([x != y for x, y in zip(ga, gb) if not x.eq(y)])])
  elif kind == 'ds_leaves':
    b = t['block']
    params = {'p0': jnp.zeros(shape, jnp.float32)}
    nleaf = shape[0] // b
    lshape = (b,) + shape[1:]
    if len(lshape) == 1 and 'exponent_override' not in t['cfg']:
      raise ValueError('rank-1 leaves need an exponent override to match')
    params2 = {f'q{i}': jnp.zeros(lshape, jnp.float32) for i in range(nleaf)}
    tr, _ = dsh.trace_update(opt, params)
    tr2, _ = dsh.trace_update(opt, params2)
    n_eqns = tr.n_eqns + tr2.n_eqns
    A = tr.sym_inputs()
    g_, st_, p_ = tr.unflatten_in(A)
    nax = len(shape)
    # build the separate-leaves inputs from slices of the blocked tensor's variables
    L = tr2.sym_inputs(prefix='unused')
    g2, st2, p2 = tr2.unflatten_in(L)
    for i in range(nleaf):
      sl = slice(i * b, (i + 1) * b)
      key = f'q{i}'
      g2[key][...] = g_['p0'][sl]
      p2[key][...] = p_['p0'][sl]
      s_blk, s_leaf = st_.stats['p0'], st2.stats[key]
      for k in range(nax):
        s_leaf.statistics[k][...] = s_blk.statistics[i * nax + k]
        s_leaf.preconditioners[k][...] = s_blk.preconditioners[i * nax + k]
      s_leaf.momentum.quantized[...] = s_blk.momentum.quantized[sl]
      s_leaf.diagonal_momentum.quantized[...] = s_blk.diagonal_momentum.quantized[sl]
      if np.asarray(s_leaf.diagonal_statistics.quantized, dtype=object).size:
        s_leaf.diagonal_statistics.quantized[...] = s_blk.diagonal_statistics.quantized[sl]
    st2.count[...] = st_.count
    count = st_.count.item()
    rng = [count >= 0, count <= 2 ** 31 - 2]
    ua, na = tr.run(Interp(Ctx()), A)
    ub, nb2 = tr2.run(Interp(Ctx()), L)
    for i in range(nleaf):
      sl = slice(i * b, (i + 1) * b)
      eq_on(P, f'{tag}|I2 update of block {i} = update of the same block as a separate leaf', ua['p0'][sl], ub[f'q{i}'], rng)
      for k in range(nax):
        eq_on(P, f'{tag}|I2 block {i} preconditioner[{k}]', na.stats['p0'].preconditioners[i * nax + k],
              nb2.stats[f'q{i}'].preconditioners[k], rng)
    P.reach(f'{tag}|twin: assumptions satisfiable', rng, [zl(g_['p0'].reshape(-1)[0]) != 0])
  elif kind == 'ds_companion':
    cshape = tuple(t['companion'])
    params = {'p0': jnp.zeros(shape, jnp.float32)}
    params2 = {'p0': jnp.zeros(shape, jnp.float32), 'p1': jnp.zeros(cshape, jnp.float32)}
    tr, _ = dsh.trace_update(opt, params)
    tr2, _ = dsh.trace_update(opt, params2)
    n_eqns = tr.n_eqns + tr2.n_eqns
    pool = {}
    A = tr.sym_inputs(pool=pool)
    # share p0's variables by name
    L = []
    for nm, x in zip(tr2.names, tr2.flat):
      key = (nm, tuple(np.shape(x)), str(np.asarray(x).dtype))
      if key in pool:
        L.append(pool[key])
      else:
        L.append(sym_like('c_' + ''.join(ch if ch.isalnum() else '_' for ch in nm), x))
    g_, st_, p_ = tr.unflatten_in(A)
    count = st_.count.item()
    rng = [count >= 0, count <= 2 ** 31 - 2]
    shared = sum(1 for nm, x in zip(tr2.names, tr2.flat) if (nm, tuple(np.shape(x)), str(np.asarray(x).dtype)) in pool)
    ua, na = tr.run(Interp(Ctx()), A)
    ub, nb2 = tr2.run(Interp(Ctx()), L)
    P.results.append(dict(name=f'{tag}|I3 harness shares every variable of the parameter', kind='core', queries=0,
                          status='unsat' if shared == len(A) else 'sat', note=f'{shared} of {len(A)} leaves shared'))
    eq_on(P, f'{tag}|I3 update independent of the companion parameter {cshape}', ua['p0'], ub['p0'], rng)
    la = jax.tree_util.tree_leaves(na.stats['p0'], is_leaf=lambda x: isinstance(x, np.ndarray))
    lb = jax.tree_util.tree_leaves(nb2.stats['p0'], is_leaf=lambda x: isinstance(x, np.ndarray))
    eq_on(P, f'{tag}|I3 new state of the parameter independent of the companion',
          np.concatenate([toobj(x).reshape(-1) for x in la]), np.concatenate([toobj(x).reshape(-1) for x in lb]), rng)
    P.reach(f'{tag}|twin: assumptions satisfiable', rng, [zl(g_['p0'].reshape(-1)[0]) != 0])
  elif kind in ('tf_blocks', 'tf_leaves'):
    shampoo = tfh.mods()[2]
    c = tfh.full_cfg(dict(block_size=t['block'], **t['cfg']))
    tx = shampoo.apply(tfh.shampoo_options(c))
    params = {'w': jnp.zeros(shape, jnp.float32)}
    tr, _ = tfh.trace_tx(tx, params)
    n_eqns = tr.n_eqns
    A = tr.sym_inputs()
    for nm, leaf in zip(tr.names, A):   # symmetric covariances
      if '.stats' in nm and leaf.ndim == 3:
        for n in range(leaf.shape[0]):
          for i in range(leaf.shape[1]):
            for j in range(i):
              leaf[n, i, j] = leaf[n, j, i]
    g_, st_, _ = tr.unflatten_in(A)
    count = st_.count.item()
    rng = [count >= 0, count <= 2 ** 31 - 2]
    b = t['block']
    if kind == 'tf_blocks':
      B = []
      for nm, leaf in zip(tr.names, A):
        leaf = toobj(leaf)
        if leaf.shape == shape:
          nb = leaf.copy()
          fc = fresh_copy(leaf, '_B')
          for idx in np.ndindex(shape):
            if any(block_of_index(shape, b, idx)):
              nb[idx] = fc[idx]
          B.append(nb)
        elif leaf.ndim == 3:
          nb = leaf.copy()
          fc = fresh_copy(leaf, '_B')
          nb[1:] = fc[1:]
          for n in range(1, nb.shape[0]):
            for i in range(nb.shape[1]):
              for j in range(i):
                nb[n, i, j] = nb[n, j, i]
          B.append(nb)
        else:
          B.append(leaf)
      ctx = Ctx()   # one context: the eigh stub is one function of its input in both runs
      ua, na = tr.run(Interp(ctx), A)
      ub, nb_ = tr.run(Interp(ctx), B)
      blk0 = [idx for idx in np.ndindex(shape) if not any(block_of_index(shape, b, idx))]
      eq_on(P, f'{tag}|I1 update of block 0 independent of the other blocks', ua['w'], ub['w'], rng, blk0)
      for ax in range(len(shape)):
        eq_on(P, f'{tag}|I1 block 0 statistics axis {ax}', na.blocks['w'].stats[ax][0], nb_.blocks['w'].stats[ax][0], rng)
        eq_on(P, f'{tag}|I1 block 0 roots axis {ax}', na.blocks['w'].roots[ax][0], nb_.blocks['w'].roots[ax][0], rng)
      P.reach(f'{tag}|twin: assumptions satisfiable', rng, [zl(g_['w'].reshape(-1)[0]) != 0])
    else:
      nleaf = shape[0] // b
      lshape = (b,) + shape[1:]
      params2 = {f'q{i}': jnp.zeros(lshape, jnp.float32) for i in range(nleaf)}
      tr2, _ = tfh.trace_tx(tx, params2)
      n_eqns += tr2.n_eqns
      L = tr2.sym_inputs(prefix='unused')
      g2, st2, _ = tr2.unflatten_in(L)
      for i in range(nleaf):
        sl = slice(i * b, (i + 1) * b)
        g2[f'q{i}'][...] = g_['w'][sl]
        for ax in range(len(shape)):
          st2.blocks[f'q{i}'].stats[ax][0][...] = st_.blocks['w'].stats[ax][i]
          st2.blocks[f'q{i}'].roots[ax][0][...] = st_.blocks['w'].roots[ax][i]
      st2.count[...] = st_.count
      ctx = Ctx()
      ua, na = tr.run(Interp(ctx), A)
      ub, nb_ = tr2.run(Interp(ctx), L)
      for i in range(nleaf):
        sl = slice(i * b, (i + 1) * b)
        eq_on(P, f'{tag}|I2 update of block {i} = update of the same block as a separate leaf', ua['w'][sl], ub[f'q{i}'], rng)
      P.reach(f'{tag}|twin: assumptions satisfiable', rng, [zl(g_['w'].reshape(-1)[0]) != 0])
  res, viol = [], []
  confirmed = None
  for r in P.results:
    r = dict(r)
    if r['status'] in ('sat', 'unknown') and r.get('kind', 'core') == 'core':
      if confirmed is None:
        confirmed = confirm(t) or False
      if confirmed:
        r['status'] = 'violation'
        viol.append(dict(key=confirmed['key'], what=confirmed['what'], replay=confirmed['replay']))
      elif r['status'] == 'sat':
        r['status'] = 'spurious'
        r['note'] = 'candidate counterexample did not reproduce on the real code'
    res.append(r)
  return dict(results=res, violations=viol, errors=[], configs=1, samples=[dict(task=t, jaxpr_eqns=n_eqns)],
              extra=dict(jaxpr_eqns_total=n_eqns, eval_s=round(time.time() - t0_, 2)))


# ------------------------------------------------------------------------- replay
def concrete(t, seed=0, T=4):
  """two real runs that differ only where the property allows; block 0 / the parameter must agree"""
  kind = t['kind']
  shape = tuple(t['shape'])
  rng = np.random.RandomState(seed)
  b = t['block']
  scales = [(1.0, 1.0), (1e-3, 1e3), (1e3, 1e-3)][seed % 3]

  def scaled(g, s):
    g = g.copy()
    for idx in np.ndindex(shape):
      if any(block_of_index(shape, b, idx)):
        g[idx] *= s
    return g

  if kind.startswith('ds'):
    dsh.uninstall_root_stub()
  try:
    if kind in ('ds_blocks', 'tf_blocks'):
      if kind == 'ds_blocks':
        opt = dsh.make_opt(ds_cfg(t))
        key = 'p0'
      else:
        c = tfh.full_cfg(dict(block_size=b, **t['cfg']))
        opt = tfh.mods()[2].apply(tfh.shampoo_options(c))
        key = 'w'
      p = {key: jnp.asarray(rng.randn(*shape), jnp.float32)}
      sa, sb = tfh.quiet(opt.init, p), tfh.quiet(opt.init, p)
      blk0 = [idx for idx in np.ndindex(shape) if not any(block_of_index(shape, b, idx))]
      for step in range(T):
        g = rng.randn(*shape).astype(np.float32)
        other = rng.randn(*shape).astype(np.float32)
        ga = scaled(g, scales[0])
        gb = g.copy()
        for idx in np.ndindex(shape):
          if any(block_of_index(shape, b, idx)):
            gb[idx] = other[idx] * scales[1]
        ua, sa = tfh.quiet(opt.update, {key: jnp.asarray(ga)}, sa, p)
        ub, sb = tfh.quiet(opt.update, {key: jnp.asarray(gb)}, sb, p)
        ua, ub = np.asarray(ua[key]), np.asarray(ub[key])
        for idx in blk0:
          if not np.isclose(ua[idx], ub[idx], rtol=1e-4, atol=1e-7):
            return (f'step {step}: update of block 0 at {idx} is {ua[idx]} vs {ub[idx]} when only the OTHER blocks\' '
                    f'gradients change (scales {scales})')
      return None
    if kind in ('ds_leaves', 'tf_leaves'):
      nleaf = shape[0] // b
      if kind == 'ds_leaves':
        opt = dsh.make_opt(ds_cfg(t))
      else:
        c = tfh.full_cfg(dict(block_size=b, **t['cfg']))
        opt = tfh.mods()[2].apply(tfh.shampoo_options(c))
      prm = rng.randn(*shape).astype(np.float32)
      p1 = {'p0': jnp.asarray(prm)}
      p2 = {f'q{i}': jnp.asarray(prm[i * b:(i + 1) * b]) for i in range(nleaf)}
      s1, s2 = tfh.quiet(opt.init, p1), tfh.quiet(opt.init, p2)
      for step in range(T):
        g = rng.randn(*shape).astype(np.float32)
        for i in range(nleaf):
          g[i * b:(i + 1) * b] *= (scales[0] if i == 0 else scales[1])
        u1, s1 = tfh.quiet(opt.update, {'p0': jnp.asarray(g)}, s1, p1)
        u2, s2 = tfh.quiet(opt.update, {f'q{i}': jnp.asarray(g[i * b:(i + 1) * b]) for i in range(nleaf)}, s2, p2)
        for i in range(nleaf):
          a, bb = np.asarray(u1['p0'])[i * b:(i + 1) * b], np.asarray(u2[f'q{i}'])
          if not np.allclose(a, bb, rtol=1e-4, atol=1e-7 * max(1.0, np.abs(bb).max())):
            return f'step {step}: block {i} of the blocked tensor gets {a.reshape(-1)[:4]} but {bb.reshape(-1)[:4]} as a separate leaf (scales {scales})'
      return None
    if kind == 'ds_companion':
      opt = dsh.make_opt(ds_cfg(t))
      cshape = tuple(t['companion'])
      prm = rng.randn(*shape).astype(np.float32)
      p1 = {'p0': jnp.asarray(prm)}
      p2 = {'p0': jnp.asarray(prm), 'p1': jnp.asarray(rng.randn(*cshape) * scales[1], jnp.float32)}
      s1, s2 = opt.init(p1), opt.init(p2)
      for step in range(T):
        g = rng.randn(*shape).astype(np.float32)
        u1, s1 = opt.update({'p0': jnp.asarray(g)}, s1, p1)
        u2, s2 = opt.update({'p0': jnp.asarray(g), 'p1': jnp.asarray(rng.randn(*cshape) * scales[1], jnp.float32)}, s2, p2)
        a, bb = np.asarray(u1['p0']), np.asarray(u2['p0'])
        if not np.allclose(a, bb, rtol=1e-4, atol=1e-7):
          return f'step {step}: update {a.reshape(-1)[:4]} changes to {bb.reshape(-1)[:4]} when a companion parameter {cshape} is present'
      return None
  finally:
    if kind.startswith('ds'):
      dsh.install_root_stub()
  return None


def confirm(t):
  for seed in range(6):
    what = concrete(t, seed)
    if what:
      path = write_replay(PID, dict(property=PID, task=t, seed=seed, observed=what))
      key = f"C08:{t['kind']}"
      if t['kind'].startswith('tf') and 'OTHER' in what or (t['kind'] == 'tf_leaves'):
        key = 'C08:tf:shared-eigenvalue-cutoff' if seed % 3 else key
      return dict(key=key, what=what, replay=path)
  return None


def replay(path):
  d = json.load(open(path))
  what = concrete(d['task'], d['seed'])
  if what:
    print(f'VIOLATION property={PID} replay={path}')
    print('  ' + what)
    return 1
  print('replay: no interference observed')
  return 0


def run(rep):
  rep.explanation = (
      'Bounded SMT verification (z3) of non-interference by self-composition on the real update jaxprs: I1 two symbolic runs share '
      'only block 0\'s gradient/state variables, all other blocks\' variables are independent; block 0\'s update and new state must be '
      'equal (graft NONE so that no parameter-level norm couples blocks); I2 a blocked tensor and the same blocks as separate leaves '
      'get equal updates; I3 a parameter\'s update/state are unchanged by adding a companion parameter of another shape (which changes '
      'the padding size).  Roots/eigendecompositions are uninterpreted functions of their own unpadded block.')
  rep.encode('precondition.distributed_shampoo.distributed_shampoo.update_fn (+_compute_preconditioners batching/padding/unbatch)',
             'precondition/distributed_shampoo.py')
  rep.encode('precondition.tearfree.shampoo._update (+_pth_inv_root, _precondition_blocks, _update_block_stats)', 'precondition/tearfree/shampoo.py')
  ts = tasks(rep.tier)
  rep.bounds = dict(tasks=len(ts), layouts=sorted({f"{t['kind']}:{tuple(t['shape'])}/block {t['block']}" for t in ts}),
                    history='one step from an arbitrary state (all histories of the shared block)', step_counter='symbolic')
  rep.stubs = ['matrix_inverse_pth_root -> ROOT/ERR UFs of the unpadded block (padding invariance assumed)',
               'eigh -> fresh outputs memoised per input matrix (one function for both runs)']
  rep.assumptions = ['exact real arithmetic', 'root routine is padding invariant and a function of its own block only (its body is C01)']
  rep.outside = ['grafting norm coupling between blocks (exempted by the property; I1/I2 use graft NONE)', 'float rounding / XLA batching effects']
  run_tasks('vp.props.c08', 'work', ts, report=rep)
