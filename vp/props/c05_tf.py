"""C05, Tearfree part: grafting.graft around the real second-order transformation."""
from fractions import Fraction
import json
import time
import numpy as np
import z3
import jax
import jax.numpy as jnp

from .. import tfh
from ..symjax import Interp, Ctx, toobj
from ..symjax import real as R
from ..harness import f32, Traced
from ..solve import Prover, zl
from ..report import write_replay
from .ds_ref import norm, emap

PID = 'C05'


def tasks(tier):
  out = []
  base = [
      dict(shape=[2, 2], cfg=dict(second_order='shampoo', block_size=4, merge_dims=2)),
      dict(shape=[4], cfg=dict(second_order='shampoo', block_size=2, merge_dims=2, skip_rank1=False)),
      dict(shape=[4], cfg=dict(second_order='shampoo', block_size=2, merge_dims=2, skip_rank1=True)),
      dict(shape=[3, 2], cfg=dict(second_order='shampoo', block_size=4, merge_dims=2, skip_dim_gt=2)),
      dict(shape=[4], cfg=dict(second_order='shampoo', block_size=2, merge_dims=2, skip_rank1=False, skip_dim_gt=2)),
      dict(shape=[2], cfg=dict(second_order='shampoo', block_size=2, merge_dims=2, skip_rank1=False, skip_dim_gt=2)),
      dict(shape=[3], cfg=dict(second_order='sketchy', sk_rank=1, merge_dims=2, skip_rank1=False, decay=0.5)),
  ]
  if tier == 'thorough':
    base += [dict(shape=[4, 2], cfg=dict(second_order='shampoo', block_size=2, merge_dims=2)),
             dict(shape=[2, 2, 2], cfg=dict(second_order='shampoo', block_size=4, merge_dims=2)),
             dict(shape=[3, 2], cfg=dict(second_order='sketchy', sk_rank=1, merge_dims=2, decay=1.0))]
  for i, b in enumerate(base):
    for graft in ('SGD', 'RMSPROP'):
      for t0 in ((1,) if tier == 'quick' else (0, 1, 2)):
        out.append(dict(kind='tf', shape=b['shape'], cfg=dict(b['cfg'], graft=graft, start=t0)))
  for i, b in enumerate(base):
    if tier == 'thorough' or i in (0, 2, 3, 6):
      out.append(dict(kind='tf', shape=b['shape'], cfg=dict(b['cfg'], graft='ADAFACTOR', start=1)))
  return out


def describe(rep):
  rep.encode('precondition.tearfree.grafting.graft/_graft_with/maybe_graft/_mask_skipped/_rmsprop/_sgd', 'precondition/tearfree/grafting.py')
  rep.encode('precondition.tearfree.second_order.apply (direction, traced alone for comparison)', 'precondition/tearfree/second_order.py')


def masked(c, shape):
  return (c['skip_rank1'] and len(shape) <= 1) or any(s > c['skip_dim_gt'] for s in shape)


def graft_step(c, I, g, acc):
  if c['graft'] == 'SGD':
    return g
  b = f32(c['graft_decay'])
  out = np.empty(g.shape, dtype=object)
  for idx in np.ndindex(g.shape):
    sq = R.s_mul(g[idx], g[idx])
    a2 = R.s_add(sq, acc[idx]) if c['graft_decay'] == 1.0 else R.s_add(R.s_mul(sq, f32(1 - c['graft_decay'])), R.s_mul(b, acc[idx]))
    out[idx] = R.s_mul(g[idx], R.s_div(1, I.sqrt(R.s_add(a2, f32(c['graft_eps'])))))
  return out


def work(task):
  t0_ = time.time()
  c = tfh.full_cfg(task['cfg'])
  shape = tuple(task['shape'])
  _, second_order, shampoo, sketchy, grafting, momentum, reshaper = tfh.mods()
  tag = f"TF|{c['second_order']}|{'x'.join(map(str, shape))}|graft={c['graft']},start={c['start']},skip_rank1={c['skip_rank1']},skip_dim_gt={c['skip_dim_gt']}"
  params = {'w': jnp.zeros(shape, jnp.float32)}
  so = second_order.apply(tfh.second_order_options(c))
  tx = grafting.graft(tfh.grafting_options(c), so)
  tr, state = tfh.trace_tx(tx, params)
  ctx = Ctx()
  I = Interp(ctx)
  leaves = tr.sym_inputs()
  g_, st_, p_ = tr.unflatten_in(leaves)
  upd, new = tr.run(I, leaves)
  u = upd['w']
  g = g_['w']
  count = st_.count.item()
  rng = [count >= 0, count <= 2 ** 31 - 2]
  P = Prover(timeout_s=30, first_s=1.0)
  if c['graft'] == 'ADAFACTOR':
    # the grafting optimizer's step is whatever the real optax.adafactor chain (as configured by grafting._adafactor) returns
    # on the same state: traced alone, evaluated by the same evaluator (no reference model of AdaFactor is needed for C05)
    ntx = grafting._adafactor(tfh.grafting_options(c))
    trN = Traced(lambda gg, ss, pp: ntx.update(gg, ss, pp), (params, state.norm, params), name='n')
    leavesN = jax.tree_util.tree_leaves((g_, st_.norm, p_), is_leaf=lambda x: isinstance(x, np.ndarray))
    gsu, _ = trN.run(Interp(ctx), leavesN)
    gs = gsu['w']
  else:
    acc = st_.norm.acc['w'] if c['graft'] == 'RMSPROP' else None
    gs = graft_step(c, I, g, acc)
  is_masked = masked(c, shape)
  P.equal(f'{tag}|count+1', new.count, np.array(R.s_add(count, 1), dtype=object), rng)
  if is_masked:
    P.equal(f'{tag}|N3 excluded parameter: update is the graft step at every step', u, gs, rng)
  else:
    # direction traced alone on the same state
    trB = Traced(lambda gg, ss, pp: so.update(gg, ss, pp), (params, state.direction, params), name='b')
    leavesB = jax.tree_util.tree_leaves((g_, st_.direction, p_), is_leaf=lambda x: isinstance(x, np.ndarray))
    baseu, _ = trB.run(Interp(ctx), leavesB)
    base = baseu['w']
    bn = norm(I, base)
    gn = norm(I, gs)
    mult = R.s_if(R.s_gt(bn, 0), R.s_div(gn, bn), Fraction(0))
    want = emap(lambda x: R.s_mul(x, mult), base)
    run = [count >= c['start']]
    P.equal(f'{tag}|N2 u = base * |graft step| / |base| (0 when |base| = 0) when count >= start', u, want, rng + run,
            split=[zl(bn) > 0])
    P.prove(f'{tag}|N1a multiplier non-negative', zl(mult) >= 0, rng + run)
    n = base.size
    uu = [z3.Real(f'lem_u0_{i}') for i in range(n)]
    mm = z3.Real('lem_m')
    vv = [x * mm for x in uu]
    lem = z3.And([vv[i] * uu[j] == vv[j] * uu[i] for i in range(n) for j in range(i + 1, n)] +
                 [z3.Sum([vv[i] * uu[i] for i in range(n)]) >= 0])
    P.prove(f'{tag}|N1b lemma: u = m*u0 with m >= 0 is parallel to and oriented like u0 (n={n})', lem, [mm >= 0], axioms=False)
    lb, lm_, lu = z3.Reals('lem_b lem_mm lem_u')
    P.prove(f'{tag}|N2b lemma: with u = base*m (N2), a zero base entry gives a zero update entry', lu == 0, [lu == lb * lm_, lb == 0], axioms=False)
    if c['start'] > 0:
      P.equal(f'{tag}|N3 update is the graft step before start', u, gs, rng + [count < c['start']])
      P.reach(f'{tag}|twin: warm-up reachable', rng, [count < c['start']])
    P.reach(f'{tag}|twin: post-start reachable with non-zero gradient', rng + run, [zl(g.reshape(-1)[0]) != 0])
  res, viol = [], []
  confirmed = None
  for r in P.results:
    r = dict(r)
    if r['status'] in ('sat', 'unknown') and r.get('kind', 'core') == 'core':
      if confirmed is None:
        confirmed = confirm(task) or False
      if confirmed:
        r['status'] = 'violation'
        viol.append(dict(key=f"C05:tf:{r['name'].split('|')[-1].split(' ')[0]}", what=confirmed['what'], replay=confirmed['replay']))
      elif r['status'] == 'sat':
        r['status'] = 'spurious'
        r['note'] = 'candidate counterexample did not reproduce on the real code'
    res.append(r)
  return dict(results=res, violations=viol, errors=[], configs=1, samples=[dict(task=task, jaxpr_eqns=tr.n_eqns)],
              extra=dict(jaxpr_eqns_total=tr.n_eqns, eval_s=round(time.time() - t0_, 2)))


def concrete(task, seed=0, T=5):
  c = tfh.full_cfg(task['cfg'])
  shape = tuple(task['shape'])
  _, second_order, shampoo, sketchy, grafting, momentum, reshaper = tfh.mods()
  so = second_order.apply(tfh.second_order_options(c))
  tx = grafting.graft(tfh.grafting_options(c), so)
  rng = np.random.RandomState(seed)
  p = {'w': jnp.asarray(rng.randn(*shape), jnp.float32)}
  st = tfh.quiet(tx.init, p)
  acc = np.zeros(shape)
  for t in range(T):
    g = rng.randn(*shape).astype(np.float32)
    if t == T - 1:
      g = np.zeros(shape, np.float32)
    gj = {'w': jnp.asarray(g)}
    is_masked = masked(c, shape)
    if not is_masked:
      base, _ = tfh.quiet(so.update, gj, st.direction, p)
      base = np.asarray(base['w'], np.float64)
    u, st2 = tfh.quiet(tx.update, gj, st, p)
    u = np.asarray(u['w'], np.float64)
    if int(st2.count) != int(st.count) + 1:
      return f'step {t}: count advanced by {int(st2.count) - int(st.count)}'
    g64 = g.astype(np.float64)
    if c['graft'] == 'ADAFACTOR':
      ntx = grafting._adafactor(tfh.grafting_options(c))
      if t == 0:
        nst = ntx.init(p)
      gsj, nst = ntx.update(gj, nst, p)
      gs = np.asarray(gsj['w'], np.float64)
    elif c['graft'] == 'SGD':
      gs = g64
    else:
      b = c['graft_decay']
      acc = g64 * g64 + acc if b == 1.0 else g64 * g64 * (1 - b) + b * acc
      gs = g64 / np.sqrt(acc + float(np.float32(c['graft_eps'])))
    if is_masked or t < c['start']:
      if not np.allclose(u, gs, rtol=1e-3, atol=1e-7):
        return f'step {t}: update {u.reshape(-1)[:4]} is not the graft step {gs.reshape(-1)[:4]}'
    else:
      nb, nu, ng = np.linalg.norm(base), np.linalg.norm(u), np.linalg.norm(gs)
      if nb == 0:
        if nu != 0:
          return f'step {t}: zero base update but non-zero update'
      else:
        cosv = float(u.reshape(-1) @ base.reshape(-1)) / (nu * nb + 1e-300)
        if ng > 0 and cosv < 1 - 1e-4:
          return f'step {t}: update not parallel to the preconditioned update (cos={cosv})'
        if abs(nu - ng) > 1e-3 * ng + 1e-9:
          return f'step {t}: update norm {nu} != graft step norm {ng}'
    st = st2
  return None


def confirm(task):
  for seed in (0, 1, 2):
    what = concrete(task, seed)
    if what:
      path = write_replay(PID, dict(property=PID, task=task, seed=seed, observed=what))
      return dict(what=what, replay=path)
  return None
