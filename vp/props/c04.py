"""C04 — statistics / preconditioner refresh cadence and warm-up.

The step counter is a symbolic integer (0..2^31-2): the solver's verdict covers every
step index at once.  Distributed Shampoo (replicated and sharded), Tearfree Shampoo,
Tearfree Sketchy and the Tearfree grafting wrapper.
"""
from fractions import Fraction
import itertools
import json
import math
import time
import numpy as np
import z3
import jax
import jax.numpy as jnp

from .. import dsh
from ..symjax import Interp, Ctx, toobj
from ..symjax import real as R
from ..symjax.stubs import root_uf
from ..harness import f32
from ..solve import Prover, zl, differing
from ..report import run_tasks, write_replay
from . import c02
from .ds_ref import DSRef, emap

PID = 'C04'
BIG = 2 ** 30


def ds_tasks(tier):
  if tier == 'quick':
    grid = [(s, q, t0) for s in (1, 2, 3) for q in (1, 2, 3) for t0 in (0, 1, 2)]
    shapes = [((2, 2), 4), ((4,), 2)]
  else:
    grid = [(s, q, t0) for s in (1, 2, 3, 5, 8) for q in (1, 2, 3, 5, 8) for t0 in (0, 1, 2, 7)]
    shapes = [((2, 2), 4), ((4,), 2), ((3, 2), 2)]
  out = []
  for i, (s, q, t0) in enumerate(grid):
    sh, b = shapes[i % len(shapes)]
    graft = dsh.GRAFTS[i % 3]  # SGD, ADAGRAD, RMSPROP
    out.append(dict(kind='ds', cfg=dict(c02.BASE, s=s, q=q, start=t0, block_size=b, graft=graft,
                                        nesterov=bool(i % 2)), shape=list(sh)))
  return out


def sched_tasks(tier):
  out = [dict(kind='ds_sched', cfg=dict(c02.BASE, q=3, end=20, s=1, start=1, block_size=4, graft='SGD'), shape=[2, 2])]
  if tier == 'thorough':
    out += [dict(kind='ds_sched', cfg=dict(c02.BASE, q=10, end=30, s=2, start=0, block_size=4, graft='RMSPROP'), shape=[2, 2]),
            dict(kind='ds_sched', cfg=dict(c02.BASE, q=3, end=20, s=1, start=1, block_size=2, graft='SGD'), shape=[4])]
  return out


def sharded_tasks(tier):
  grid = [(2, 3, 1), (3, 2, 2)] if tier == 'quick' else [(s, q, t0) for s in (1, 2, 3) for q in (1, 2, 3) for t0 in (0, 2)]
  return [dict(kind='ds_sharded', cfg=dict(c02.BASE, s=s, q=q, start=t0, block_size=4, graft='RMSPROP'), shapes=[[3], [2, 2]], D=2)
          for (s, q, t0) in grid]


def sharded_work(task):
  """cadence of the sharded variant (global statistics / preconditioners, local metrics)"""
  t0_ = time.time()
  c = dsh.full_cfg(task['cfg'])
  shapes = [tuple(x) for x in task['shapes']]
  s, q, t0 = c['s'], c['q'], c['start']
  tag = f"DS-sharded|{'+'.join('x'.join(map(str, x)) for x in shapes)}|D={task['D']}|s={s},q={q},t0={t0}"
  dsh.install_root_stub()
  params = dsh.zeros_tree(shapes)
  tr, state0, opt, mesh = dsh.trace_sharded(c, params, task['D'])
  I = Interp(Ctx())
  leaves = tr.sym_inputs()
  for k, nm in enumerate(tr.names):
    if nm.endswith('.exponents'):
      leaves[k] = np.asarray(tr.flat[k])
  g_, st_, p_ = tr.unflatten_in(leaves)
  upd, new = tr.run(I, leaves)
  count = st_.count.item()
  rng = [count >= 0, count <= 2 ** 31 - 2]
  P = Prover(timeout_s=30, first_s=1.0)
  P.equal(f'{tag}|K1 count+1', new.count, np.array(R.s_add(count, 1), dtype=object), rng)
  gs_old, gs_new = st_.stats.global_stats, new.stats.global_stats
  nreal = sum(len(state0.stats.local_stats[k].sizes) for k in params)
  sizes = [sz for k in sorted(params) for sz in state0.stats.local_stats[k].sizes]
  real = lambda A: np.concatenate([toobj(A[i])[:sizes[i], :sizes[i]].reshape(-1) for i in range(nreal)])
  if s > 1:
    P.equal(f'{tag}|K2 global statistics (real blocks) unchanged when count % s != 0', real(gs_new.statistics), real(gs_old.statistics), rng + [count % s != 0])
    d = differing(real(gs_new.statistics), real(gs_old.statistics))
    P.reach(f'{tag}|K2 twin: statistics can change on-step', rng + [count % s == 0], [z3.Or([a != b for a, b in d])] if d else [z3.BoolVal(False)])
  if q > 1:
    P.equal(f'{tag}|K3 global preconditioners (all slots) unchanged when count % q != 0', toobj(gs_new.preconditioners).reshape(-1),
            toobj(gs_old.preconditioners).reshape(-1), rng + [count % q != 0])
    unchanged(P, f'{tag}|K3 metrics unchanged when count % q != 0', {k: v.training_metrics for k, v in new.stats.local_stats.items()},
              {k: v.training_metrics for k, v in st_.stats.local_stats.items()}, rng + [count % q != 0])
    d = differing(real(gs_new.preconditioners), real(gs_old.preconditioners))
    P.reach(f'{tag}|K3 twin: preconditioners can change on-step', rng + [count % q == 0], [z3.Or([a != b for a, b in d])] if d else [z3.BoolVal(False)])
  slot = 0
  for key in sorted(params):
    ref = DSRef(c, tuple(params[key].shape), I)
    for k in range(ref.nstat):
      i = slot + k
      root, err = root_uf(toobj(gs_new.statistics[i])[:sizes[i], :sizes[i]], ref.exponent)
      want = emap(lambda r_, o_: R.s_if(R.s_not(R.s_ge(err, f32(c['thr']))), r_, o_), root, toobj(gs_old.preconditioners[i])[:sizes[i], :sizes[i]])
      P.equal(f'{tag}|K4 global preconditioner[{i}] = gate(ROOT(new statistics)) when count % q == 0',
              toobj(gs_new.preconditioners[i])[:sizes[i], :sizes[i]], want, rng + ([count % q == 0] if q > 1 else []), [err >= R.rlit(f32(c['thr']))])
    slot += ref.nstat
  res, viol = finish(P, task, tag)
  return dict(results=res, violations=viol, errors=[], configs=1,
              samples=[dict(kind='ds_sharded', config=task['cfg'], shapes=task['shapes'], jaxpr_eqns=tr.n_eqns)],
              extra=dict(jaxpr_eqns_total=tr.n_eqns, eval_s=round(time.time() - t0_, 2)))


def sharded_concrete(task, seed=0):
  c = dsh.full_cfg(task['cfg'])
  shapes = [tuple(x) for x in task['shapes']]
  s, q = c['s'], c['q']
  dsh.uninstall_root_stub()
  try:
    rng = np.random.RandomState(seed)
    params = {f'p{i}': jnp.asarray(rng.randn(*sh), jnp.float32) for i, sh in enumerate(shapes)}
    tr, state, opt, mesh = dsh.trace_sharded(c, params, task['D'])
    with mesh:
      upd = jax.jit(opt.update)
      for t in range(2 * s * q + 3):
        g = {k: jnp.asarray(rng.randn(*v.shape), jnp.float32) for k, v in params.items()}
        u, new = upd(g, state, params)
        a, b = state.stats.global_stats, new.stats.global_stats
        if int(new.count) != int(state.count) + 1:
          return f'step {t}: counter advanced by {int(new.count) - int(state.count)}'
        if t % s != 0 and bits(a.statistics) != bits(b.statistics):
          return f'step {t}: sharded statistics changed although {t} % {s} != 0'
        if t % s == 0 and bits(a.statistics) == bits(b.statistics):
          return f'step {t}: sharded statistics did not change although {t} % {s} == 0'
        if t % q != 0 and bits(a.preconditioners) != bits(b.preconditioners):
          return f'step {t}: sharded preconditioners changed although {t} % {q} != 0'
        if t % q != 0 and bits({k: v.training_metrics for k, v in state.stats.local_stats.items()}) != bits({k: v.training_metrics for k, v in new.stats.local_stats.items()}):
          return f'step {t}: sharded metrics changed although {t} % {q} != 0'
        state = new
    return None
  finally:
    dsh.install_root_stub()


def sched_pieces(q0, end, limit=4000):
  """the documented interval q_t = max(floor((q0 + (1 - lr(t)/lr(0)) * end) / 10) * 10, 1) for lr(t) = lr0/(1+t):
  maximal runs [a, b] of step indices with constant q_t (b = None for the final, unbounded run)"""
  from fractions import Fraction as Fr
  def qt(t):
    x = Fr(q0) + Fr(t, 1 + t) * end
    return max((x // 10) * 10, 1)
  final = max(((Fr(q0) + end - Fr(1, 10 ** 9)) // 10) * 10, 1)
  pieces = []
  a, cur = 0, qt(0)
  for t in range(1, limit):
    v = qt(t)
    if v != cur:
      pieces.append((a, t - 1, int(cur)))
      a, cur = t, v
    if v == final:
      break
  pieces.append((a, None, int(cur)))
  return pieces


def sched_work(task):
  """K6: learning-rate-scheduled preconditioner interval"""
  t0_ = time.time()
  c = dsh.full_cfg(dict(task['cfg'], lr_schedule=True, decay_preconditioning_compute_steps=True,
                        end_preconditioning_compute_steps=task['cfg']['end']))
  shape = tuple(task['shape'])
  q0, end = c['q'], task['cfg']['end']
  tag = f"DS-scheduled|{'x'.join(map(str, shape))}|q0={q0},end={end},s={c['s']},t0={c['start']}"
  dsh.install_root_stub()
  opt = dsh.make_opt(c)
  params = {'p0': jnp.zeros(shape, jnp.float32)}
  tr, _ = dsh.trace_update(opt, params)
  I = Interp(Ctx())
  leaves = tr.sym_inputs()
  g_, st_, p_ = tr.unflatten_in(leaves)
  upd, new = tr.run(I, leaves)
  count = st_.count.item()
  old, nw = st_.stats['p0'], new.stats['p0']
  P = Prover(timeout_s=40, first_s=2.0)
  ref = DSRef(dict(c, q=1), shape, I)
  pieces = sched_pieces(q0, end)
  P.results.append(dict(name=f'{tag}|K6 documented interval is >= 1 on every piece {pieces}', kind='core', queries=0,
                        status='unsat' if all(v >= 1 for _, _, v in pieces) else 'sat'))
  P.equal(f'{tag}|K1 count+1', new.count, np.array(R.s_add(count, 1), dtype=object), [count >= 0, count <= 2 ** 31 - 2])
  from ..solve import walk
  out_terms = [x for leaf in flat_leaves((nw.preconditioners, nw.training_metrics)) for x in toobj(leaf).reshape(-1) if R.is_z3(x)]
  floors = [t_ for t_ in walk(out_terms) if z3.is_app(t_) and t_.decl().kind() == z3.Z3_OP_TO_INT]
  for (a, b, v) in pieces:
    rng = [count >= a] + ([count <= b] if b is not None else [count <= 2 ** 31 - 2])
    ptag = f'{tag}|steps {a}..{b if b is not None else "inf"}: interval {v}'
    # floor resolution: a floor(...) inside the code's interval computation that is constant on this piece is
    # replaced by its value AFTER the solver has proved lo <= arg < lo + 1 on the whole piece
    subs = []
    for fi, ft in enumerate(floors):
      arg = ft.arg(0)
      smp = z3.simplify(z3.substitute(arg, (count, z3.IntVal(a if b is None else (a + b) // 2))))
      if not z3.is_rational_value(smp):
        continue
      lo = smp.as_fraction().numerator // smp.as_fraction().denominator
      side = Prover(timeout_s=20, first_s=5.0, fresh=True)
      rr = side.prove(f'{ptag}|K6 side: floor term {fi} equals {lo} on this piece', z3.And(arg >= lo, arg < lo + 1), rng, axioms=False, nosplit=True)
      if rr.ok:
        P.results.append(rr)
        rng = rng + [ft == lo]
        subs.append((ft, z3.IntVal(lo)))

    def sb(tree):
      """rewrite the resolved floor terms (equal to constants on this piece, proved above) and fold"""
      def one(a_):
        a_ = toobj(a_)
        o = np.empty(a_.shape, dtype=object)
        for idx in np.ndindex(a_.shape):
          x = a_[idx]
          o[idx] = z3.simplify(z3.substitute(x, *subs)) if (R.is_z3(x) and subs) else x
        return o
      return jax.tree_util.tree_map(one, tree, is_leaf=lambda x: isinstance(x, np.ndarray))
    nwp, nwm = sb(list(nw.preconditioners)), sb(nw.training_metrics)
    if v > 1:
      unchanged(P, f'{ptag}|K6 preconditioners unchanged when count % {v} != 0', nwp, old.preconditioners, rng + [count % v != 0])
      unchanged(P, f'{ptag}|K6 metrics unchanged when count % {v} != 0', nwm, old.training_metrics, rng + [count % v != 0])
    on = rng + ([count % v == 0] if v > 1 else [])
    for k in range(ref.nstat):
      root, err = root_uf(nw.statistics[k], ref.exponent)
      want = emap(lambda r_, o_: R.s_if(R.s_not(R.s_ge(err, f32(c['thr']))), r_, o_), root, old.preconditioners[k])
      P.equal(f'{ptag}|K6 preconditioner[{k}] = gate(ROOT(new statistics)) when count % {v} == 0', nwp[k], want, on,
              [err >= R.rlit(f32(c['thr']))])
    if b is None or any(t_ % v == 0 for t_ in range(a, b + 1)):
      P.reach(f'{ptag}|twin: refresh step reachable in this piece', on)
    else:
      P.reach(f'{ptag}|twin: piece reachable (it contains no refresh step, so only the unchanged-obligations apply)', rng)
  res, viol = finish(P, task, tag)
  return dict(results=res, violations=viol, errors=[], configs=1,
              samples=[dict(kind='ds_sched', config=task['cfg'], shape=list(shape), pieces=pieces, jaxpr_eqns=tr.n_eqns)],
              extra=dict(jaxpr_eqns_total=tr.n_eqns, eval_s=round(time.time() - t0_, 2)))


def sched_concrete(task, seed=0):
  """real optimizer with the scheduled interval: preconditioners must change exactly on multiples of q_t"""
  c = dsh.full_cfg(dict(task['cfg'], lr_schedule=True, decay_preconditioning_compute_steps=True,
                        end_preconditioning_compute_steps=task['cfg']['end']))
  shape = tuple(task['shape'])
  pieces = sched_pieces(c['q'], task['cfg']['end'])
  def interval(t):
    for a, b, v in pieces:
      if t >= a and (b is None or t <= b):
        return v
  dsh.uninstall_root_stub()
  try:
    opt = dsh.make_opt(c)
    rng = np.random.RandomState(seed)
    p = {'p0': jnp.asarray(rng.randn(*shape), jnp.float32)}
    st = opt.init(p)
    for t in range(45):
      g = {'p0': jnp.asarray(rng.randn(*shape), jnp.float32)}
      u, st2 = opt.update(g, st, p)
      v = interval(t)
      changed = bits(st.stats['p0'].preconditioners) != bits(st2.stats['p0'].preconditioners)
      if t % v != 0 and changed:
        return f'step {t}: preconditioners changed although the scheduled interval is {v} and {t} % {v} != 0'
      if t % v == 0 and not changed and t > 0:
        return f'step {t}: preconditioners did not change although the scheduled interval is {v} and {t} % {v} == 0'
      st = st2
    return None
  finally:
    dsh.install_root_stub()


def flat_leaves(tree):
  return jax.tree_util.tree_leaves(tree, is_leaf=lambda x: isinstance(x, np.ndarray))


def unchanged(P, name, new, old, assume, split=()):
  """term-wise equality of two pytrees of arrays"""
  a = flat_leaves(new)
  b = flat_leaves(old)
  if len(a) != len(b):
    P.results.append(dict(name=name, status='sat', kind='core', queries=0, note='tree structure differs'))
    return
  A = np.concatenate([toobj(x).reshape(-1) for x in a]) if a else np.zeros((0,), dtype=object)
  B = np.concatenate([toobj(x).reshape(-1) for x in b]) if b else np.zeros((0,), dtype=object)
  return P.equal(name, A, B, assume, split)


def ds_work(task):
  t0_ = time.time()
  c = dsh.full_cfg(task['cfg'])
  shape = tuple(task['shape'])
  s, q, t0 = c['s'], c['q'], c['start']
  tag = f"DS|{'x'.join(map(str, shape))}|s={s},q={q},t0={t0},graft={c['graft']},nesterov={c['nesterov']}"
  dsh.install_root_stub()
  opt = dsh.make_opt(c)
  params = {'p0': jnp.zeros(shape, jnp.float32)}
  tr, _ = dsh.trace_update(opt, params)
  I = Interp(Ctx())
  leaves = tr.sym_inputs()
  g_, st_, p_ = tr.unflatten_in(leaves)
  upd, new = tr.run(I, leaves)
  count = st_.count.item()
  old = st_.stats['p0']
  nw = new.stats['p0']
  rng = [count >= 0, count <= 2 ** 31 - 2]
  P = Prover(timeout_s=30, first_s=1.0)
  # K1
  P.equal(f'{tag}|K1 count+1', new.count, np.array(R.s_add(count, 1), dtype=object), rng)
  # K2 statistics unchanged off-step
  if s > 1:
    unchanged(P, f'{tag}|K2 statistics unchanged when count % s != 0', nw.statistics, old.statistics,
              rng + [count % s != 0])
    d = differing(np.concatenate([x.reshape(-1) for x in nw.statistics]),
                  np.concatenate([x.reshape(-1) for x in old.statistics]))
    P.reach(f'{tag}|K2 twin: statistics can change on-step', rng + [count % s == 0],
            [z3.Or([a != b for a, b in d])] if d else [z3.BoolVal(False)])
  # K3 preconditioners and metrics unchanged off-step
  thr = R.rlit(f32(c['thr']))
  ref = DSRef(c, shape, I)
  errs = []
  for k in range(ref.nstat):
    root, err = root_uf(nw.statistics[k], ref.exponent)
    errs.append(err)
  if q > 1:
    unchanged(P, f'{tag}|K3 preconditioners unchanged when count % q != 0', nw.preconditioners, old.preconditioners,
              rng + [count % q != 0])
    unchanged(P, f'{tag}|K3 metrics unchanged when count % q != 0', nw.training_metrics, old.training_metrics,
              rng + [count % q != 0])
    d = differing(np.concatenate([x.reshape(-1) for x in nw.preconditioners]),
                  np.concatenate([x.reshape(-1) for x in old.preconditioners]))
    P.reach(f'{tag}|K3 twin: preconditioners can change on-step', rng + [count % q == 0],
            [z3.Or([a != b for a, b in d])] if d else [z3.BoolVal(False)])
  # K4 on-step: P' = gate(ROOT(statistics'))  -- statistics' is the code's own new statistics
  for k in range(ref.nstat):
    root, err = root_uf(nw.statistics[k], ref.exponent)
    want = emap(lambda r, o: R.s_if(R.s_not(R.s_ge(err, f32(c['thr']))), r, o), root, old.preconditioners[k])
    P.equal(f'{tag}|K4 preconditioner[{k}] = gate(ROOT(new statistics)) when count % q == 0',
            nw.preconditioners[k], want, rng + ([count % q == 0] if q > 1 else []), [err >= thr])
    P.equal(f'{tag}|K4 error metric[{k}] = ERR(new statistics) when count % q == 0',
            nw.training_metrics.inverse_pth_root_errors[k:k + 1], np.array([err], dtype=object),
            rng + ([count % q == 0] if q > 1 else []))
  # K5 warm-up: graft-momentum update before t0, preconditioned afterwards (reference model)
  full = c02.reference(c, shape, I, g_['p0'], p_['p0'], count, old)
  split = [count >= t0] + ([count % s == 0] if s > 1 else []) + ([count % q == 0] if q > 1 else []) + [e >= thr for e in errs]
  if t0 > 0:
    P.equal(f'{tag}|K5 update = graft momentum update when count < t0', upd['p0'], full['update'], rng + [count < t0], split)
  P.equal(f'{tag}|K5 update uses new preconditioners when count >= t0', upd['p0'], full['update'], rng + [count >= t0], split)
  # K5 self-composition: same code with start=BIG (pure graft optimizer) and start=0
  for start2, cond, nm in [(BIG, count < t0, 'count < t0: equals the optimizer that never starts preconditioning'),
                           (0, count >= t0, 'count >= t0: equals the optimizer that preconditions from step 0')]:
    if (start2 == BIG and t0 == 0) or (start2 == 0 and t0 == 0):
      continue
    opt2 = dsh.make_opt(dict(c, start=start2))
    tr2, _ = dsh.trace_update(opt2, params)
    upd2, new2 = tr2.run(Interp(I.ctx), leaves)
    P.equal(f'{tag}|K5 {nm}', upd['p0'], upd2['p0'], rng + [cond], split)
  P.reach(f'{tag}|K5 twin: boundary step count == t0 reachable', rng, [count == t0])
  res, viol = finish(P, task, tag)
  return dict(results=res, violations=viol, errors=[], configs=1,
              samples=[dict(kind='ds', config=task['cfg'], shape=list(shape), jaxpr_eqns=tr.n_eqns)],
              extra=dict(jaxpr_eqns_total=tr.n_eqns, eval_s=round(time.time() - t0_, 2)))


def finish(P, task, tag):
  res, viol = [], []
  confirmed = None
  for r in P.results:
    r = dict(r)
    if r['status'] in ('sat', 'unknown') and r.get('kind', 'core') == 'core':
      if confirmed is None:
        confirmed = confirm(task) or False
      if confirmed:
        r['status'] = 'violation'
        ob = r['name'].split('|')[-1].split(' ')[0]
        viol.append(dict(key=f"C04:{task['kind']}:{ob}", what=confirmed['what'], replay=confirmed['replay']))
      elif r['status'] == 'sat':
        r['status'] = 'spurious'
        r['note'] = 'candidate counterexample did not reproduce on the real code'
    res.append(r)
  return res, viol


# ------------------------------------------------------------------------- replay
def bits(x):
  return [np.asarray(l).tobytes() for l in jax.tree_util.tree_leaves(x)]


def ds_cadence_concrete(c, shape, seed=0):
  """Run the real optimizer from init and observe the cadence bitwise."""
  s, q, t0 = c['s'], c['q'], c['start']
  T = min(2 * (s * q // math.gcd(s, q)) + t0 + 3, 40)
  rng = np.random.RandomState(seed)
  grads = [rng.randn(*shape) for _ in range(T)]
  prm = rng.randn(*shape)
  m = c02.run_history(c, shape, grads, prm)
  if m:
    return m, grads, prm
  dsh.uninstall_root_stub()
  try:
    opt = dsh.make_opt(c)
    optg = dsh.make_opt(dict(c, start=BIG))
    p = {'p0': jnp.asarray(prm, jnp.float32)}
    st, stg = opt.init(p), optg.init(p)
    for t, g in enumerate(grads):
      gg = {'p0': jnp.asarray(g, jnp.float32)}
      u, st2 = opt.update(gg, st, p)
      ug, stg = optg.update(gg, stg, p)
      a, b = st.stats['p0'], st2.stats['p0']
      if int(st2.count) != int(st.count) + 1:
        return f'step {t}: counter advanced by {int(st2.count) - int(st.count)}', grads, prm
      if t % s != 0 and bits(a.statistics) != bits(b.statistics):
        return f'step {t}: statistics changed although {t} % {s} != 0', grads, prm
      if t % s == 0 and a.statistics and bits(a.statistics) == bits(b.statistics):
        return f'step {t}: statistics did not change although {t} % {s} == 0', grads, prm
      if t % q != 0 and (bits(a.preconditioners) != bits(b.preconditioners) or bits(a.training_metrics) != bits(b.training_metrics)):
        return f'step {t}: preconditioners/metrics changed although {t} % {q} != 0', grads, prm
      if t < t0 and bits(u) != bits(ug):
        return f'step {t} < start {t0}: update is not the grafting optimizer\'s momentum update', grads, prm
      st = st2
    return None, grads, prm
  finally:
    dsh.install_root_stub()


def confirm(task):
  if task['kind'] == 'ds_sharded':
    for seed in (0, 1):
      what = sharded_concrete(task, seed)
      if what:
        path = write_replay(PID, dict(property=PID, kind='ds_sharded', task=task, seed=seed, observed=what))
        return dict(what=what, replay=path)
    return None
  if task['kind'] == 'ds_sched':
    for seed in (0, 1):
      what = sched_concrete(task, seed)
      if what:
        path = write_replay(PID, dict(property=PID, kind='ds_sched', task=task, seed=seed, observed=what))
        return dict(what=what, replay=path)
    return None
  if task['kind'] == 'ds':
    c = dsh.full_cfg(task['cfg'])
    shape = tuple(task['shape'])
    for seed in (0, 1):
      what, grads, prm = ds_cadence_concrete(c, shape, seed)
      if what:
        path = write_replay(PID, dict(property=PID, kind='ds', config=c, shape=list(shape), seed=seed, observed=what))
        return dict(what=what, replay=path)
    return None
  from . import c04_tf
  return c04_tf.confirm(task)


def replay(path):
  d = json.load(open(path))
  if d['kind'] == 'ds_sharded':
    what = sharded_concrete(d['task'], d['seed'])
  elif d['kind'] == 'ds_sched':
    what = sched_concrete(d['task'], d['seed'])
  elif d['kind'] == 'ds':
    what, _, _ = ds_cadence_concrete(d['config'], tuple(d['shape']), d['seed'])
  else:
    from . import c04_tf
    what = c04_tf.replay_what(d)
  if what:
    print(f'VIOLATION property={PID} replay={path}')
    print('  ' + what)
    return 1
  print('replay: cadence as configured')
  return 0


def work(task):
  if task['kind'] == 'ds':
    return ds_work(task)
  if task['kind'] == 'ds_sched':
    return sched_work(task)
  if task['kind'] == 'ds_sharded':
    return sharded_work(task)
  from . import c04_tf
  return c04_tf.work(task)


def run(rep):
  rep.explanation = (
      'Bounded SMT verification with a SYMBOLIC step counter (0..2^31-2): on the jaxpr of the real update functions z3 proves, '
      'for all states and gradients, K1 counter+1, K2 statistics term-identical when count % s != 0, K3 preconditioners and '
      'metrics term-identical when count % q != 0, K4 on refresh steps the preconditioner is gate(ROOT(statistics after this '
      "step's update)), K5 updates equal the graft-momentum update before the start step and use the new preconditioners "
      'from it on (reference model and self-composition with start=never / start=0); K6 with a learning-rate-scheduled interval the '
      'same K3/K4 hold for the documented piecewise-constant interval q_t (>= 1), piece by piece with the last piece unbounded; each '
      'unchanged-obligation has an on-step reachability twin.')
  rep.encode('precondition.distributed_shampoo.distributed_shampoo.update_fn (+_compute_stats, _pmap_compute_preconditioners, '
             '_update_preconditioners_fn, efficient_cond, _transform_grad)', 'precondition/distributed_shampoo.py')
  ts = ds_tasks(rep.tier) + sched_tasks(rep.tier) + sharded_tasks(rep.tier)
  try:
    from . import c04_tf
    ts += c04_tf.tasks(rep.tier)
    c04_tf.describe(rep)
  except ImportError:
    pass
  rep.bounds = dict(step_counter='symbolic 0..2^31-2 (not bounded by a history length)', tasks=len(ts),
                    grid='(s,q,t0) in {1,2,3}^2 x {0,1,2}' if rep.tier == 'quick' else '(s,q,t0) in {1,2,3,5,8}^2 x {0,1,2,7}',
                    shapes=sorted({str(tuple(t['shape'])) for t in ts if 'shape' in t}), sharded='trees {(3,),(2,2)} with declared D=2 under a one-device mesh')
  rep.stubs = ['matrix_inverse_pth_root -> ROOT/ERR uninterpreted functions of the unpadded block']
  rep.assumptions = ['exact real arithmetic: "bit-identical" is proved as term identity (the state is passed through, not recomputed)',
                     'int32 wrap-around of the counter at 2^31-1 excluded']
  rep.outside = ['float rounding', 'counter overflow']
  run_tasks('vp.props.c04', 'work', ts, report=rep)
