r"""C17 — Sketchy memory reallocation respects the memory budget.

The REAL create_redist_dict is executed by the float32 forking executor (E2) on an
in-memory `states` tree; scores are symbolic float32 values (the arithmetic the real
code performs on jnp scalars), dims / base rank concrete over a small grid.  One QF_BVFP
query per explored path: path condition /\ not (no exception, 1 <= rank <= dim,
sum of ranks <= group size x base rank).
"""
import json
import os
import time
import types
import numpy as np
import z3
import jax.numpy as jnp

from ..pysym import fengine as FE
from ..pysym.fengine import SymF, SymI, SymB, bv, F
from ..fpsolve import check_fp
from ..report import run_tasks, write_replay, load_known, REPO

PID = 'C17'
SRC = os.path.join(REPO, 'precondition/tearfree/reallocation.py')


def tasks(tier):
  grid = [(2, 4, 3), (2, 3, 2), (1, 4, 2), (2, 11, 10)]      # (2,11,10): smallest size at which a float32-cancelled total can make a second axis an outlier
  if tier == 'thorough':
    grid += [(2, 5, 2), (2, 6, 3), (2, 4, 1), (2, 2, 1), (2, 4, 4), (2, 16, 12), (2, 12, 4), (3, 3, 2), (3, 4, 3)]
  out = [dict(n=n, dim=d, rank=r, **({'stretch': True} if n >= 3 else {})) for n, d, r in grid]
  # several axes per layer / several groups of different dimension (exercises grouping and the write-back by layer and axis)
  out.append(dict(layers=[[3, 2]], rank=2))
  # sub-cases of three / four axes per group that stay cheap: tied scores (one symbolic value shared by several axes) and
  # all-zero sketches (frozen or never-updated layers) next to free scores
  out += [dict(n=3, dim=3, rank=2, pattern=[0, 'z', 'z']), dict(n=3, dim=4, rank=3, pattern=[0, 'z', 'z']), dict(n=4, dim=3, rank=2, pattern=[0, 'z', 'z', 'z'])]
  if tier == 'thorough':
    out += [dict(n=3, dim=3, rank=2, pattern=[0, 1, 1], stretch=True), dict(n=3, dim=4, rank=2, pattern=[0, 0, 1], stretch=True),
            dict(n=4, dim=3, rank=2, pattern=[0, 1, 'z', 'z']), dict(n=4, dim=4, rank=3, pattern=[0, 0, 'z', 'z']), dict(n=5, dim=3, rank=2, pattern=[0, 1, 'z', 'z', 'z']),
            dict(n=5, dim=4, rank=2, pattern=[0, 'z', 'z', 'z', 'z'])]
  return out


def layers_of(t):
  return t['layers'] if 'layers' in t else [[t['dim']]] * t['n']


def load_module():
  """the module's own source, executed with int / min / sum shadowed by proxy-aware versions"""
  src = open(SRC).read()
  mod = types.ModuleType('realloc_sym')
  mod.__dict__.update({'int': FE.sym_int, 'min': FE.sym_min, 'max': FE.sym_max, 'sum': FE.sym_sum})
  # the module defines command-line flags at import time; defining them twice in one process is an
  # error, so flag definition is a no-op while this second copy is executed
  from absl import flags
  saved = {n: getattr(flags, n) for n in dir(flags) if n.startswith('DEFINE_')}
  for n in saved:
    setattr(flags, n, lambda *a, **k: None)
  try:
    exec(compile(src, SRC, 'exec'), mod.__dict__)
  finally:
    for n, f in saved.items():
      setattr(flags, n, f)
  return mod


def make_states(layers):
  sk = {f'L{i}': {'axes': {str(a): {'dim': d} for a, d in enumerate(dims)}} for i, dims in enumerate(layers)}
  return ({'inner_state': {'0': {'direction': {'1': {'sketches': sk}}}}},)


def axes_of(layers):
  return [(i, a, d) for i, dims in enumerate(layers) for a, d in enumerate(dims)]


def enumerate_paths(layers, rank, maxpaths=400, pattern=None):
  mod = load_module()
  axes = axes_of(layers)
  n = len(axes)
  names = [f'L{i}/axes/{a}' for i, a, _ in axes]
  pattern = list(range(n)) if pattern is None else pattern
  nv = len({q for q in pattern if q != 'z'})
  sc = [z3.FP(f's{k}', F) for k in range(nv)]                      # the free scores
  axis_sc = [z3.FPVal(0.0, F) if q == 'z' else sc[q] for q in pattern]     # score of each axis (shared variable = tie, 'z' = zero)
  mod.score_fn = lambda states, rule, layer_names, running_average=False: {nm: SymF(s) for nm, s in zip(names, axis_sc)}
  n = nv
  states = make_states(layers)

  def run():
    out = mod.create_redist_dict('', [0], 'sketch_trace', False, rank, states)
    return [out[f'L{i}'][a] for i, a, _ in axes]

  base = [z3.And(z3.Not(z3.fpIsNaN(s)), z3.Not(z3.fpIsInf(s)),
                 z3.Or(z3.fpIsZero(s), z3.And(z3.fpGEQ(s, z3.FPVal(2.0 ** -40, F)), z3.fpLEQ(s, z3.FPVal(2.0 ** 40, F))))) for s in sc]
  # sample pool for cheap feasibility witnesses: log-uniform magnitudes, zeros, ties, near-ties
  rng = np.random.RandomState(0)
  pool = []
  for k in range(400):
    v = np.float32(2.0) ** rng.uniform(-12, 12, size=n)
    if k % 7 == 0:
      v[rng.randint(n)] = 0.0
    if k % 11 == 0:
      v[:] = v[0]
    if k % 13 == 0 and n > 1:
      v[1] = np.nextafter(np.float32(v[0]), np.float32(0))
    if k % 17 == 0:
      v[:] = 0.0
    if k % 5 == 0:
      v = np.round(v * 4) / 4
    pool.append([(s, z3.FPVal(float(np.float32(x)), F)) for s, x in zip(sc, v)])
  FE.E.samples = pool
  from ..cvc5inproc import check as cvc5_check
  from ..fpsolve import to_smt2
  stats = dict(t=0.0, unknown=0)

  def oracle(conds):
    t = time.time()
    r = cvc5_check(to_smt2(base + list(conds)), timeout_ms=1500)
    stats['t'] += time.time() - t
    stats['unknown'] += r == 'unknown'
    return r
  FE.E.oracle = oracle
  paths = []
  for pc, (kind, res) in FE.explore(run, maxpaths):
    if kind == 'exc':
      paths.append(dict(pc=pc, neg_post=z3.BoolVal(True), what=f'{type(res).__name__}: {str(res)[:80]}'))
      continue
    tot, size = {}, {}
    bad = []
    for x, (_, _, dim) in zip(res, axes):
      t = bv(x)
      tot[dim] = tot.get(dim, z3.BitVecVal(0, 32)) + t
      size[dim] = size.get(dim, 0) + 1
      bad += [t < 1, t > dim]
    paths.append(dict(pc=pc, neg_post=z3.Or(bad + [tot[d] > size[d] * rank for d in tot]), what='ranks', alive=len(FE.E.alive)))
  return sc, base, paths, (FE.E.oracle_calls, round(stats['t'], 1), stats['unknown'])


def real_run(scores, layers, rank):
  """the real function on concrete float32 scores (rule sketch_trace: score = sum of eigvals)"""
  from precondition.tearfree import reallocation as R
  axes = axes_of(layers)
  it = iter(scores)
  sk = {f'L{i}': {'axes': {str(a): {'dim': d, 'eigvals': jnp.asarray([next(it)], jnp.float32)} for a, d in enumerate(dims)}}
        for i, dims in enumerate(layers)}
  states = ({'inner_state': {'0': {'direction': {'1': {'sketches': sk}}}}},)
  try:
    out = R.create_redist_dict('', [0], 'sketch_trace', False, rank, states)
  except Exception as ex:
    return f'create_redist_dict raises {type(ex).__name__}: {str(ex)[:100]} for scores {scores}, axis dims {layers}, base rank {rank}'
  try:
    ranks = [int(out[f'L{i}'][a]) for i, a, _ in axes]
  except Exception as ex:
    return f'result has no integer rank for some axis ({type(ex).__name__}: {str(ex)[:60]}) for scores {scores}, axis dims {layers}'
  dims = [d for _, _, d in axes]
  if any(r < 1 or r > d for r, d in zip(ranks, dims)):
    return f'ranks {ranks} outside [1, dim] for axis dims {dims}, scores {scores}, base rank {rank}'
  for d in sorted(set(dims)):
    grp = [r for r, dd in zip(ranks, dims) if dd == d]
    if sum(grp) > len(grp) * rank:
      return f'ranks {grp} of the dim-{d} group sum to {sum(grp)} > budget {len(grp)} x {rank} = {len(grp) * rank} for scores {scores}, axis dims {layers}'
  return None


def solve_path(args):
  """stage 1: float arithmetic abstracted to fresh values (sound for `unsat`; decides paths whose
  post-condition follows from the integer clamps alone); stage 2: bit-precise query.
  Runs in a worker thread: only subprocesses, no z3 API calls."""
  from ..fpsolve import check_text
  sc_names, text_abs, text_precise, timeout = args
  r1 = check_text(text_abs, (), min(60, timeout), ('cvc5',))
  if r1['status'] == 'unsat':
    r1['stage'] = 'abstract'
    return r1
  r2 = check_text(text_precise, sc_names, timeout, ('cvc5',))
  r2['stage'] = 'precise'
  r2['wall_s'] += r1['wall_s']
  return r2


def work(t):
  t0_ = time.time()
  layers, rank = layers_of(t), t['rank']
  tag = (f"n={t['n']}|dim={t['dim']}|rank={rank}" if 'n' in t else f"axis dims per layer={layers}|rank={rank}")
  known_open = {e['key']: e for e in load_known(PID) if e.get('status') == 'open'}
  pattern = t.get('pattern')
  if pattern:
    tag += f'|scores tied/zero pattern={pattern}'
  sc, base, paths, ocalls = enumerate_paths(layers, rank, pattern=pattern)
  names = [str(s) for s in sc]
  timeout = t.get('timeout', 600)
  res, viol = [], []
  import concurrent.futures as cf
  from ..solve import abstract_fp_arith
  from ..fpsolve import to_smt2
  jobs = []
  for p in paths:
    full = base + p['pc'] + [p['neg_post']]
    abs_, _ = abstract_fp_arith(full)
    jobs.append((names, to_smt2(abs_), to_smt2(full), timeout))
  nw = max(1, min(8, len(jobs)))
  with cf.ThreadPoolExecutor(max_workers=nw) as ex:
    outs = list(ex.map(solve_path, jobs))
  n_unsat = n_unknown = 0
  found = {}
  for p, r in zip(paths, outs):
    if r['status'] == 'unsat':
      n_unsat += 1
    elif r['status'] == 'sat':
      scores = [float(np.float32(r['model'].get(nm, 0.0))) for nm in names]
      if pattern:
        scores = [0.0 if q == 'z' else scores[q] for q in pattern]
      what = real_run(scores, layers, rank)
      if what:
        key = 'C17:over-allocation' if 'sum to' in what else ('C17:exception:' + what.split('raises ')[1].split(':')[0] if 'raises' in what else 'C17:rank-range')
        found.setdefault(key, (what, scores))
      else:
        n_unknown += 1
    else:
      n_unknown += 1
  replay_note = ''
  if not found and n_unknown:
    # undecided paths: model-free replay of the real function on a fixed battery of score vectors within the task's bounds
    # (small integers, powers of two, ties, zeros, near-ties); a reproduced violation is reported, otherwise the paths stay undecided
    rng = np.random.RandomState(17)
    nv = len(names)
    tried = 0
    for k in range(300):
      if k % 3 == 0:
        v = rng.randint(0, 6, size=nv).astype(np.float32)
      elif k % 3 == 1:
        v = (np.float32(2.0) ** rng.randint(-6, 7, size=nv)).astype(np.float32)
      else:
        v = np.float32(2.0) ** rng.uniform(-12, 12, size=nv).astype(np.float32)
      if k % 5 == 0 and nv > 1:
        v[rng.randint(nv)] = v[0]
      scores = [float(x) for x in v]
      if pattern:
        scores = [0.0 if q == 'z' else scores[q] for q in pattern]
      tried += 1
      what = real_run(scores, layers, rank)
      if what:
        key = 'C17:over-allocation' if 'sum to' in what else ('C17:exception:' + what.split('raises ')[1].split(':')[0] if 'raises' in what else 'C17:rank-range')
        found.setdefault(key, (what, scores))
        break
    replay_note = f'; {n_unknown} undecided path(s): model-free replay of {tried} score vectors ' + ('reproduced a violation' if found else 'found nothing')
  status = 'unsat'
  n_abs = sum(1 for o in outs if o.get('stage') == 'abstract')
  note = f'{len(paths)} paths explored, {n_unsat} discharged ({n_abs} already with float arithmetic abstracted), {n_unknown} undecided' + replay_note
  for key, (what, scores) in found.items():
    path = write_replay(PID, dict(property=PID, scores=scores, layers=layers, rank=rank, observed=what))
    viol.append(dict(key=key, what=what, replay=path))
    status = 'violation'
  if not found and n_unknown:
    status = 'unknown'
  res.append(dict(name=f'{tag}|every path: no exception, 1 <= rank <= dim, sum of ranks <= n x base rank', status=status, kind='stretch' if (t.get('stretch') and status != 'violation') else 'core',
                  queries=len(paths), cases=len(paths), solver_s=round(sum(o['wall_s'] for o in outs), 1), note=note))
  ok_paths = [p for p in paths if p['what'] == 'ranks']
  tw = dict(status='unknown', wall_s=0)
  for p in sorted(ok_paths, key=lambda p: -p.get('alive', 0))[:3]:
    tw = check_fp(base + p['pc'] + [z3.Not(p['neg_post'])], timeout_s=120)
    if tw['status'] == 'sat':
      break
  res.append(dict(name=f'{tag}|twin: some explored path is feasible and ends within the budget', status=tw['status'], kind='stretch' if t.get('stretch') else 'twin', queries=1, solver_s=tw['wall_s']))
  return dict(results=res, violations=viol, errors=[], configs=1, samples=[dict(task=t, paths=len(paths))],
              extra=dict(paths_total=len(paths), feasibility_queries=ocalls, eval_s=round(time.time() - t0_, 2)))


def replay(path):
  d = json.load(open(path))
  what = real_run(d['scores'], d['layers'] if 'layers' in d else [[d['dim']]] * len(d['scores']), d['rank'])
  if what:
    print(f'VIOLATION property={PID} replay={path}')
    print('  ' + what)
    return 1
  print('replay: budget respected')
  return 0


def run(rep):
  rep.explanation = (
      'Path-wise symbolic execution of the REAL create_redist_dict (module source executed with int/min/sum shadowed by proxy-aware '
      'versions, score_fn returning symbolic float32 scores) with bit-precise float32 arithmetic: for every explored path one QF_BVFP '
      'query (cvc5/z3) decides whether some scores on that path make the function raise, assign a rank outside [1, dim] or exceed the '
      'budget group size x base rank; models are replayed on the real function (rule sketch_trace).')
  rep.encode('precondition.tearfree.reallocation.create_redist_dict (+layers_and_axes, create_groups)', 'precondition/tearfree/reallocation.py')
  ts = tasks(rep.tier)
  for t in ts:
    t['timeout'] = 600 if rep.tier == 'quick' else 1800
    if t.get('stretch'):
      t['task_timeout'] = 2400
  rep.bounds = dict(grid=[((t['n'], t['dim'], t['rank']) if 'pattern' not in t else dict(n=t['n'], dim=t['dim'], rank=t['rank'], tied_or_zero_pattern=t['pattern'])) if 'n' in t else dict(axis_dims_per_layer=t['layers'], rank=t['rank']) for t in ts], scores='every float32 that is 0 or in [2^-40, 2^40], per axis',
                    groups='one group of n equal-dimension axes; plus layers with two axes forming 2-3 groups of different dimension', paths='all paths up to 400 per grid point')
  rep.stubs = ['score_fn -> symbolic float32 scores (scoring rules are outside the budget claim)', 'checkpoint loading bypassed (states passed in memory)']
  rep.assumptions = ['python ints modelled as 32-bit vectors (values are far below 2^31 within the bounds)',
                     'jnp float32 scalar arithmetic = IEEE binary32 RNE']
  rep.outside = ['more than 3 axes per group with all scores free (4-5 axes only with tied / zero score patterns), more than 3 groups', 'scoring rules, running_average, checkpoint I/O']
  run_tasks('vp.props.c17', 'work', ts, report=rep, timeout=(2400 if rep.tier == 'quick' else 4000), workers=6)
