"""C09 — frequent-directions sketch brackets the true second moment.

The bracket invariant as a single query is `unknown` for z3 (DESIGN.md), so the claim
is decomposed: on the jaxpr of each real FD step (svd / qr stubbed) the solver
discharges the STEP IDENTITIES F1-F4; identities => bracket is the textbook argument
stated in evidence.
"""
from fractions import Fraction
import json
import time
import numpy as np
import z3
import jax
import jax.numpy as jnp

from ..symjax import Interp, Ctx, toobj, sym_like, stubs
from ..symjax import real as R
from ..harness import f32
from ..solve import Prover, zl
from ..report import run_tasks, write_replay
from .ds_ref import arr, emap, vsum

PID = 'C09'


def tasks(tier):
  out = []
  for impl in ('sketchy', 'oco', 'ds'):
    out.append(dict(impl=impl, d=3 if impl != 'ds' else 4, k=1 if impl != 'oco' else 2, decay=0.25))
    out.append(dict(impl=impl, d=3 if impl != 'ds' else 4, k=1 if impl != 'oco' else 2, decay=1.0))
  out.append(dict(impl='sketchy', d=2, k=1, decay=0.25))
  out.append(dict(impl='sketchy', d=3, k=1, decay=0.25, gshape=[3, 2], axis=0))
  out.append(dict(impl='sketchy', d=2, k=1, decay=0.25, gshape=[3, 2], axis=1))
  # F0: the statistics factor handed to the DS sketch (QR of the gradient unfolded along the preconditioned axis), every axis of
  # rank-2/3 blocks incl. interior axes and d > product of the other dimensions
  for gs in ([2, 3, 2], [3, 2], [3, 1, 2]):
    for ax in range(len(gs)):
      out.append(dict(impl='ds_factor', d=gs[ax], k=0, decay=1.0, gshape=gs, axis=ax))
  if tier == 'thorough':
    for gs in ([2, 2, 3, 2], [4, 2, 3], [2, 4, 1], [5], [2, 3, 3]):
      for ax in range(len(gs)):
        out.append(dict(impl='ds_factor', d=gs[ax], k=0, decay=1.0, gshape=gs, axis=ax))
    out += [dict(impl='sketchy', d=4, k=2, decay=0.25), dict(impl='sketchy', d=4, k=1, decay=0.5625),
            dict(impl='oco', d=4, k=3, decay=1.0), dict(impl='oco', d=4, k=2, decay=1.0),
            dict(impl='ds', d=5, k=1, decay=0.25), dict(impl='ds', d=5, k=2, decay=0.5625), dict(impl='ds', d=5, k=1, decay=0.25, pad=1)]
  for t in out:
    if t['impl'] in ('oco', 'ds_factor'):
      t['decay'] = 1.0
  seen, uniq = set(), []
  for t in out:
    key = json.dumps(t, sort_keys=True)
    if key not in seen:
      seen.add(key)
      uniq.append(t)
  return uniq


def mmT(M):
  M = np.asarray(M, dtype=object)
  n = M.shape[0]
  out = arr((n, n))
  for i in range(n):
    for j in range(n):
      out[i, j] = vsum(R.s_mul(M[i, c], M[j, c]) for c in range(M.shape[1]))
  return out


def sq(x):
  return R.s_mul(x, x)


def work(t):
  t0_ = time.time()
  impl, d, k = t['impl'], t['d'], t['k']
  b = f32(t['decay'])
  tag = f"{impl}|d={d}|k={k}|decay={t['decay']}" + ''.join(f'|{x}={t[x]}' for x in ('gshape', 'axis', 'pad') if x in t)
  P = Prover(timeout_s=40, first_s=3.0, fresh=(t['impl'] == 'ds' and t['k'] >= 2))
  ctx = Ctx()
  I = Interp(ctx)
  if impl == 'sketchy':
    from precondition.tearfree import sketchy
    gshape = tuple(t.get('gshape', [d]))
    axis = t.get('axis', 0)
    EPS = 2.0 ** -10
    opts = sketchy.Options(rank=k, second_moment_decay=t['decay'], epsilon=EPS, relative_epsilon=False)
    st0 = sketchy._init(opts, {'w': jnp.zeros(gshape)}).sketches['w'].axes[axis]
    flat, tree = jax.tree_util.tree_flatten((jnp.zeros(gshape), st0))
    fn = lambda *xs: (lambda g, s: sketchy._update_axis(opts, axis, '', g, s))(*jax.tree_util.tree_unflatten(tree, xs))
    jp, out_shape = jax.make_jaxpr(fn, return_shape=True)(*flat)
    sym = [sym_like(f'in{j}', x) for j, x in enumerate(flat)]
    outs = I.eval(jp.jaxpr, jp.consts, *sym)
    new = jax.tree_util.tree_unflatten(jax.tree_util.tree_structure(out_shape), outs)
    g, old = jax.tree_util.tree_unflatten(tree, sym)
    V, l, tail = old.eigvecs, old.eigvals, old.tail.item()
    rec = [r for r in ctx.decomps if r['kind'] == 'svd'][0]
    qrec = [r for r in ctx.decomps if r['kind'] == 'qr'][0]
    s = rec['s']
    G = np.moveaxis(g, axis, 0).reshape(d, -1)
    pre = [zl(tail) >= 0] + [zl(x) >= 0 for x in l]
    facts = stubs.svd_facts(rec, 'order') + stubs.qr_facts(qrec, 'gram')
    # F1 input of the SVD (through the QR factor): M M^T = b V diag(l^2) V^T + G G^T
    cov = arr((d, d))
    GG = mmT(G)
    for i in range(d):
      for j in range(d):
        cov[i, j] = R.s_add(R.s_mul(b, vsum(R.s_mul(R.s_mul(V[i, c], sq(l[c])), V[j, c]) for c in range(k))), GG[i, j])
    P.equal(f'{tag}|F1 svd input M satisfies M M^T = b V diag(l^2) V^T + G G^T', mmT(rec['a']), cov, pre + facts)
    # F2 deflation: stored eigvals (roots) squared = max(0, s_i^2 - s_k^2); directions = first k columns of U, zero where deflated <= 0
    c = R.s_max(s[k], Fraction(0)) if k < len(s) else Fraction(0)
    for i in range(k):
      top = R.s_max(s[i], Fraction(0))
      want = R.s_max(Fraction(0), R.s_sub(sq(top), sq(c)))
      P.prove(f'{tag}|F2 new eigenvalue {i}: l\'^2 = max(0, s_{i}^2 - s_k^2) and l\' >= 0',
              z3.And(zl(sq(new.eigvals[i])) == zl(want), zl(new.eigvals[i]) >= 0), pre + facts)
      keep = R.s_gt(new.eigvals[i], 0)
      col = emap(lambda u: R.s_if(keep, u, Fraction(0)), rec['U'][:, i])
      P.equal(f'{tag}|F2 new direction {i} = column {i} of U, or zero when deflated to 0', new.eigvecs[:, i], col, pre + facts)
    # F3 escaped mass: t' = b t + s_k^2
    P.equal(f'{tag}|F3 escaped mass t\' = b*t + s_k^2', np.array([new.tail.item()], dtype=object),
            np.array([R.s_add(R.s_mul(b, tail), sq(c))], dtype=object), pre + facts)
    # F4 stored inverse roots (l' + t' + eps)^(-1/p) in covariance units: s_i^2 + b t + eps
    alpha = f32(-1.0 / (2 * len(gshape)))
    eps = f32(EPS)
    for i in range(k):
      top = R.s_max(s[i], Fraction(0))
      want = R.s_if(R.s_gt(new.eigvals[i], 0), I.pow(R.s_add(R.s_add(sq(top), R.s_mul(b, tail)), eps), alpha), Fraction(0))
      P.equal(f'{tag}|F4 inverse root {i} = (l\'^2 + t\' + eps)^(-1/p) = (s_{i}^2 + b*t + eps)^(-1/p)', np.array([new.inv_eigvals[i]], dtype=object),
              np.array([want], dtype=object), pre + facts)
    newt = R.s_add(R.s_mul(b, tail), sq(c))
    P.equal(f'{tag}|F4 inverse tail = (t\' + eps)^(-1/p) when t\' > 0', np.array([new.inv_tail.item()], dtype=object),
            np.array([R.s_if(R.s_gt(newt, 0), I.pow(R.s_add(newt, eps), alpha), Fraction(0))], dtype=object), pre + facts)
    P.reach(f'{tag}|twin: contracts and pre-state satisfiable with t > 0', pre + facts, [zl(tail) > 0, zl(s[0]) > zl(s[min(k, len(s) - 1)])])
    rp = dict(impl=impl, d=d, k=k, decay=t['decay'], gshape=list(gshape), axis=axis)
  elif impl == 'ds_factor':
    from precondition import distributed_shampoo as ds
    gshape, axis = tuple(t['gshape']), t['axis']
    fn = lambda g: ds.frequent_directions_update(None, g, axis, 1.0, 1.0)
    ex = jnp.zeros(gshape)
    jp = jax.make_jaxpr(fn)(ex)
    g = sym_like('g', ex)
    out = toobj(I.eval(jp.jaxpr, jp.consts, g)[0])
    qrecs = [r for r in ctx.decomps if r['kind'] == 'qr']
    facts = [f for r in qrecs for f in stubs.qr_facts(r, 'gram')]
    G = np.moveaxis(g, axis, 0).reshape(d, -1)
    ok_shape = tuple(out.shape) == (d, d)
    P.results.append(dict(name=f'{tag}|F0 statistics factor is d x d', kind='core', queries=0, status='unsat' if ok_shape else 'sat'))
    if ok_shape:
      P.equal(f'{tag}|F0 statistics factor R satisfies R R^T = unfold_axis(G) unfold_axis(G)^T (QR contract R^T R = X^T X)', mmT(out), mmT(G), facts)
    P.reach(f'{tag}|twin: QR contract satisfiable with a non-zero gradient', facts, [zl(g.reshape(-1)[0]) != 0])
    rp = dict(impl=impl, d=d, k=0, decay=1.0, gshape=list(gshape), axis=axis)
  elif impl == 'oco':
    from precondition.oco import algorithms as alg
    results = []
    for algo in (alg.Algorithm.S_ADA, alg.Algorithm.RFD_SON, alg.Algorithm.FD_SON, alg.Algorithm.ADA_FD):
      def fn(delta, lr, w, tt, al, Pm, e, g):
        hp = alg.HParams(delta=delta, lr=lr, sketch_size=k, algorithm=algo)
        st = {'w': w, 't': tt, 'alpha': al, 'P': Pm, 'e': e}
        return alg._fd_update_fn(st, jnp.zeros(()), g, hp)
      ex = [jnp.zeros(()), jnp.zeros(()), jnp.zeros((d,)), jnp.zeros(()), jnp.zeros(()), jnp.zeros((k, d)), jnp.zeros((k,)), jnp.zeros((d,))]
      jp, out_shape = jax.make_jaxpr(fn, return_shape=True)(*ex)
      names = ['delta', 'lr', 'w', 't', 'alpha', 'P', 'e', 'g']
      sym = [sym_like(n + algo.name, x) for n, x in zip(names, ex)]
      c2 = Ctx()
      I2 = Interp(c2)
      outs = I2.eval(jp.jaxpr, jp.consts, *sym)
      new = jax.tree_util.tree_unflatten(jax.tree_util.tree_structure(out_shape), outs)
      delta, lr, w, tt, al, Pm, e, g = sym
      rec = [r for r in c2.decomps if r['kind'] == 'svd'][0]
      s = rec['s']
      pre = [zl(al.item()) >= 0, zl(tt.item()) >= 0, zl(lr.item()) > 0] + [zl(x) >= 0 for x in e]
      facts = stubs.svd_facts(rec, 'order')
      atag = f'{tag}|{algo.name}'
      t1 = R.s_add(tt.item(), Fraction(1))
      if algo in (alg.Algorithm.S_ADA, alg.Algorithm.ADA_FD):
        gi = g
      elif algo == alg.Algorithm.RFD_SON:
        f_ = R.s_div(1, I2.sqrt(R.s_mul(t1, lr.item())))
        gi = emap(lambda x: R.s_mul(x, f_), g)
      else:
        f_ = R.s_div(1, I2.sqrt(R.s_mul(I2.sqrt(t1), lr.item())))
        gi = emap(lambda x: R.s_mul(x, f_), g)
      B = arr((k, d))
      for i in range(k):
        for j in range(d):
          B[i, j] = R.s_mul(Pm[i, j], e[i]) if i < k - 1 else gi[j]
      P.equal(f'{atag}|F1 svd input = sketch rows P*e with the last row replaced by the (scaled) gradient', rec['a'], B, pre + facts)
      rho = s[k - 1]
      for i in range(k):
        want = R.s_mul(R.s_sub(s[i], rho), R.s_add(s[i], rho))
        P.prove(f'{atag}|F2 new root-eigenvalue {i}: e\'^2 = s_{i}^2 - rho^2, e\' >= 0', z3.And(zl(sq(new['e'][i])) == zl(want), zl(new['e'][i]) >= 0), pre + facts)
      P.prove(f'{atag}|F2 last sketch row eigenvalue is zero', zl(new['e'][k - 1]) == 0, pre + facts)
      P.equal(f'{atag}|F2 new sketch rows = V^T of the SVD', new['P'], rec['Vt'], pre + facts)
      factor = {alg.Algorithm.S_ADA: Fraction(1), alg.Algorithm.RFD_SON: Fraction(1, 2), alg.Algorithm.FD_SON: Fraction(0), alg.Algorithm.ADA_FD: Fraction(0)}[algo]
      P.equal(f'{atag}|F3 diagonal mass alpha\' = alpha + {factor} * rho^2', np.array([new['alpha'].item()], dtype=object),
              np.array([R.s_add(al.item(), R.s_mul(factor, sq(rho)))], dtype=object), pre + facts)
      P.equal(f'{atag}|step counter t\' = t + 1', np.array([new['t'].item()], dtype=object), np.array([t1], dtype=object), pre + facts)
      P.reach(f'{atag}|twin: satisfiable with rho > 0', pre + facts, [zl(rho) > 0])
    rp = dict(impl=impl, d=d, k=k, decay=1.0)
    n_eq = 0
  else:
    from precondition import distributed_shampoo as ds
    pad = t.get('pad', 0)
    kk = d - pad
    p = 4
    EPS = 2.0 ** -10
    fn = lambda R_, prev: ds._fd_update_root(R_, p, k, ridge_epsilon=EPS, relative_matrix_epsilon=False, decay=t['decay'],
                                             padding_start=kk, prev=prev)
    ex = [jnp.zeros((d, d)), jnp.zeros((d, k + 2))]
    jp, out_shape = jax.make_jaxpr(fn, return_shape=True)(*ex)
    Rm = sym_like('R', ex[0])
    prev = sym_like('prev', ex[1])
    outs = I.eval(jp.jaxpr, jp.consts, Rm, prev)
    val_, metrics = jax.tree_util.tree_unflatten(jax.tree_util.tree_structure(out_shape), outs)
    val_ = toobj(val_)
    V, l, tail = prev[:, :k], prev[-k:, -1], prev[1, -1]
    rec = [r for r in ctx.decomps if r['kind'] == 'svd'][0]
    s, U = rec['s'], rec['U']
    ridge = R.s_mul(f32(EPS), R.s_max(Fraction(1), f32(1e-6)))
    pre = [zl(tail) >= 0] + [zl(x) >= 0 for x in l]
    unit = [zl(vsum(sq(U[i, c]) for i in range(d))) == 1 for c in range(k)]
    facts = stubs.svd_facts(rec, 'order') + unit
    act = lambda i: i < kk
    cov = arr((d, d))
    for i in range(d):
      for j in range(d):
        sk = vsum(R.s_mul(R.s_mul(V[i, c], R.s_add(l[c], ridge)), V[j, c]) for c in range(k) if c < kk) if act(i) and act(j) else Fraction(0)
        gg = vsum(R.s_mul(Rm[i, c], Rm[j, c]) for c in range(d) if act(c)) if act(i) and act(j) else Fraction(0)
        cov[i, j] = R.s_add(R.s_mul(b, sk), gg)
    MMt = mmT(rec['a'])
    if k >= 2:
      # entry by entry: one big conjunction with several sqrt terms is `unknown`, each entry is immediate
      for i in range(d):
        for j in range(i, d):
          P.equal(f'{tag}|F1 svd input M satisfies (M M^T)[{i},{j}] = (b V diag(l + ridge) V^T + R R^T)[{i},{j}] (masked to the unpadded block)',
                  MMt[i:i + 1, j], cov[i:i + 1, j], pre + facts)
    else:
      P.equal(f'{tag}|F1 svd input M satisfies M M^T = b V diag(l + ridge) V^T + R R^T (masked to the unpadded block)', MMt, cov, pre + facts)
    c = s[k]
    new_l = val_[-k:, -1]
    new_tail = val_[1, -1]
    nt = R.s_add(R.s_mul(tail, b), sq(c))
    P.equal(f'{tag}|F3 escaped mass t\' = b*t + s_k^2 (clamped at 0)', np.array([new_tail], dtype=object),
            np.array([R.s_if(R.s_le(nt, 0), Fraction(0), nt)], dtype=object), pre + facts)
    alpha = f32(-1.0 / p)
    if pad == 0:
      for i in range(k):
        want = R.s_mul(R.s_sub(s[i], c), R.s_add(s[i], c))
        want = R.s_if(R.s_le(want, 0), Fraction(0), want)
        P.equal(f'{tag}|F2 new eigenvalue {i} = max(0, s_{i}^2 - s_k^2) (unit-norm singular vectors)', np.array([new_l[i]], dtype=object),
                np.array([want], dtype=object), pre + facts, split=[zl(want) > 0])
        P.prove(f'{tag}|F2 new eigenvalue {i} >= 0', zl(new_l[i]) >= 0, pre + facts)
        ups = R.s_add(sq(s[i]), R.s_mul(tail, b))
        wantinv = R.s_if(R.s_and(R.s_gt(want, 0), R.s_gt(ups, 0)), I.pow(ups, alpha), Fraction(0))
        P.equal(f'{tag}|F4 inverse root {i} = (l\' + t\')^(-1/p) = (s_{i}^2 + b*t)^(-1/p) where kept', np.array([val_[i, -2]], dtype=object),
                np.array([wantinv], dtype=object), pre + facts, split=[zl(want) > 0, zl(ups) > 0])
    P.equal(f'{tag}|F4 constant = t\'^(-1/p) when t\' > 0', np.array([val_[0, -1]], dtype=object),
            np.array([R.s_if(R.s_le(nt, 0), Fraction(0), I.pow(nt, alpha))], dtype=object), pre + facts)
    P.reach(f'{tag}|twin: contracts and pre-state satisfiable with t > 0', pre + facts, [zl(tail) > 0])
    rp = dict(impl=impl, d=d, k=k, decay=t['decay'], pad=pad)
  res, viol = [], []
  confirmed = None
  for rr in P.results:
    rr = dict(rr)
    if rr['status'] in ('sat', 'unknown') and rr.get('kind', 'core') == 'core':
      if confirmed is None:
        confirmed = concrete(rp) or False
      if confirmed:
        rr['status'] = 'violation'
        path = write_replay(PID, dict(property=PID, replay=rp, observed=confirmed[0]))
        viol.append(dict(key=f'C09:{impl}:{confirmed[1]}', what=confirmed[0], replay=path))
      elif rr['status'] == 'sat':
        rr['status'] = 'spurious'
        rr['note'] = 'candidate counterexample did not reproduce on the real code'
    res.append(rr)
  return dict(results=res, violations=viol, errors=[], configs=1, samples=[dict(task=t)], extra=dict(eval_s=round(time.time() - t0_, 2)))


# ------------------------------------------------------------------------- replay
def concrete(rp, T=6):
  """iterate the real FD step over a gradient history (full-rank, then low-rank, then zero gradients)
  and check the step identities and the bracket against the exact float64 covariance.
  Returns (description, key) or None."""
  impl, d, k, b = rp['impl'], rp['d'], rp['k'], rp['decay']
  for seed in (0, 1):
    rng = np.random.RandomState(seed)
    if impl == 'sketchy':
      from precondition.tearfree import sketchy
      gshape = tuple(rp.get('gshape', [d]))
      axis = rp.get('axis', 0)
      opts = sketchy.Options(rank=k, second_moment_decay=b, epsilon=0.0, relative_epsilon=False)
      st = sketchy._init(opts, {'w': jnp.zeros(gshape)}).sketches['w'].axes[axis]
      C = np.zeros((d, d))
      for step in range(T):
        g = rng.randn(*gshape) * (1.0 if step < T - 2 else 0.0)
        G = np.moveaxis(g, axis, 0).reshape(d, -1)
        V0, l0, t0 = np.asarray(st.eigvecs, np.float64), np.asarray(st.eigvals, np.float64), float(st.tail)
        new = sketchy._update_axis(opts, axis, '', jnp.asarray(g, jnp.float32), st)
        M = np.concatenate([V0 * l0 * np.sqrt(b), G], axis=1)
        s = np.linalg.svd(M, compute_uv=False)
        s = np.concatenate([s, np.zeros(max(0, k + 1 - len(s)))])
        want_t = b * t0 + s[k] ** 2
        got_t = float(new.tail)
        if abs(got_t - want_t) > 1e-3 * max(abs(want_t), 1e-6) + 1e-7:
          return (f'step {step}: escaped mass is {got_t} but b*t + s_k^2 = {b}*{t0} + {s[k] ** 2} = {want_t}'
                  + (' (zero-gradient step)' if not g.any() else ''), 'tail-recurrence')
        want_l = np.sqrt(np.maximum(s[:k] ** 2 - s[k] ** 2, 0))
        if not np.allclose(np.asarray(new.eigvals, np.float64), want_l, rtol=1e-3, atol=1e-5):
          return (f'step {step}: sketch eigenvalues {np.asarray(new.eigvals)} but sqrt(s_i^2 - s_k^2) = {want_l}', 'deflation')
        C = b * C + G @ G.T
        Vn, ln = np.asarray(new.eigvecs, np.float64), np.asarray(new.eigvals, np.float64)
        S = (Vn * ln ** 2) @ Vn.T
        lo = np.linalg.eigvalsh(C - S).min()
        if lo < -1e-3 * max(1.0, np.abs(C).max()):
          return (f'step {step}: sketch is not below the exact covariance (min eig of C - sketch = {lo})', 'bracket-lower')
        st = new
    elif impl == 'oco':
      from precondition.oco import algorithms as alg
      hp = alg.HParams(delta=0.5, lr=0.25, sketch_size=k, algorithm=alg.Algorithm.S_ADA)
      init, upd = alg.generate_init_update((d,), hp)
      st = init()
      esc = 0.0
      for step in range(T):
        g = rng.randn(d) * (1.0 if step < T - 1 else 0.0)
        B = np.asarray(st['P'], np.float64) * np.asarray(st['e'], np.float64).reshape(-1, 1)
        B[-1] = g
        s = np.linalg.svd(B, compute_uv=False)
        a0 = float(st['alpha'])
        st = upd(dict(st), jnp.zeros(()), jnp.asarray(g))
        esc += s[-1] ** 2
        if abs(float(st['alpha']) - (a0 + s[-1] ** 2)) > 1e-4 * (1 + a0):
          return (f'step {step}: S-AdaGrad diagonal mass {float(st["alpha"])} != alpha + rho^2 = {a0 + s[-1] ** 2}', 'alpha-recurrence')
        if abs(float(st['e'][-1])) > 1e-5:
          return (f'step {step}: last sketch row eigenvalue {float(st["e"][-1])} is not zero', 'last-row')
        want = np.sqrt(np.maximum(s ** 2 - s[-1] ** 2, 0))
        if not np.allclose(np.asarray(st['e'], np.float64), want, rtol=1e-3, atol=1e-5):
          return (f'step {step}: sketch root-eigenvalues {np.asarray(st["e"])} != sqrt(s^2 - rho^2) = {want}', 'deflation')
    elif impl == 'ds_factor':
      from precondition import distributed_shampoo as ds
      gshape, axis = tuple(rp['gshape']), rp['axis']
      for step in range(T):
        g = rng.randn(*gshape) * (10.0 ** rng.randint(-2, 3))
        if step == T - 1:
          g = np.arange(1, 1 + int(np.prod(gshape)), dtype=np.float64).reshape(gshape)
        Rf = np.asarray(ds.frequent_directions_update(None, jnp.asarray(g, jnp.float32), axis, 1.0, 1.0), np.float64)
        X = np.moveaxis(g, axis, 0).reshape(gshape[axis], -1)
        want = X @ X.T
        if Rf.shape != want.shape or not np.allclose(Rf @ Rf.T, want, rtol=1e-3, atol=1e-4 * np.abs(want).max()):
          return (f'frequent_directions_update on a gradient block of shape {list(gshape)}, axis {axis}: R R^T = {np.round((Rf @ Rf.T).reshape(-1)[:4], 4)} '
                  f'but the axis-{axis} Gram matrix of the gradient is {np.round(want.reshape(-1)[:4], 4)}', 'factor-gram')
    else:
      from precondition import distributed_shampoo as ds
      pad = rp.get('pad', 0)
      kk = d - pad
      p = 4
      prev = np.zeros((d, k + 2), np.float32)
      for step in range(T):
        Gm = np.zeros((d, d))
        Gm[:kk, :kk] = np.tril(rng.randn(kk, kk)) * (1.0 if step < T - 1 else 0.0)
        V0, l0, t0 = prev[:, :k].astype(np.float64), prev[-k:, -1].astype(np.float64), float(prev[1, -1])
        val, _ = ds._fd_update_root(jnp.asarray(Gm, jnp.float32), p, k, ridge_epsilon=0.0, relative_matrix_epsilon=False, decay=b,
                                    padding_start=kk, prev=jnp.asarray(prev))
        val = np.asarray(val)
        M = np.concatenate([np.sqrt(b) * V0 * np.sqrt(np.maximum(l0, 0)), Gm], axis=1)
        s = np.linalg.svd(M, compute_uv=False)
        want_t = max(b * t0 + s[k] ** 2, 0.0)
        if abs(float(val[1, -1]) - want_t) > 1e-3 * max(want_t, 1e-6) + 1e-6:
          return (f'step {step}: escaped mass {float(val[1, -1])} but b*t + s_k^2 = {want_t}', 'tail-recurrence')
        want_l = np.maximum(s[:k] ** 2 - s[k] ** 2, 0)
        if not np.allclose(np.sort(val[-k:, -1].astype(np.float64)), np.sort(want_l), rtol=1e-2, atol=1e-4):
          return (f'step {step}: sketch eigenvalues {val[-k:, -1]} but s_i^2 - s_k^2 = {want_l}', 'deflation')
        if want_t > 1e-6 and abs(float(val[0, -1]) - want_t ** (-1.0 / p)) > 1e-2 * want_t ** (-1.0 / p):
          return (f'step {step}: stored constant {float(val[0, -1])} but t\'^(-1/p) = {want_t ** (-1.0 / p)}', 'inverse-root')
        for i in range(k):
          if want_l[i] > 1e-6:
            wi = (want_l[i] + want_t) ** (-1.0 / p)
            got = float(val[i, -2])
            if abs(got - wi) > 2e-3 * wi:
              return (f'step {step}: stored inverse root {got} of direction {i} but (l\' + t\')^(-1/p) = {wi} (l\'={want_l[i]}, t\'={want_t})', 'inverse-root')
        prev = val.astype(np.float32)
  return None


def replay(path):
  d = json.load(open(path))
  what = concrete(d['replay'])
  if what:
    print(f'VIOLATION property={PID} replay={path}')
    print('  ' + what[0])
    return 1
  print('replay: FD step identities hold on the stored history')
  return 0


def run(rep):
  rep.explanation = (
      'Bounded SMT verification (exact reals) of the frequent-directions STEP IDENTITIES on the jaxprs of the three real step '
      'functions (tearfree sketchy._update_axis, oco._fd_update_fn, distributed_shampoo._fd_update_root) with svd/qr stubbed: '
      'F1 the matrix handed to the SVD satisfies M M^T = b V diag(l) V^T + G G^T (through the QR factor for Sketchy), F2 new '
      'eigenvalues are s_i^2 - s_k^2 clamped at 0 and non-negative, new directions are the top-k singular vectors or zero, last OCO '
      'row zero, F3 escaped mass t\' = b t + s_k^2 (OCO: alpha\' = alpha + factor rho^2), F4 stored inverse roots are '
      '(l\' + t\' [+ eps])^(-1/p); F0 the DS statistics factor (frequent_directions_update) has the Gram matrix of the gradient unfolded '
      'along the preconditioned axis, for every axis of rank-2..4 blocks; for ALL sketch states, gradients and singular outputs. Lemma (not solver-checked): F1-F3 imply '
      'the bracket V diag(l) V^T <= C <= V diag(l) V^T + t I by the standard FD argument.')
  rep.encode('precondition.tearfree.sketchy._update_axis', 'precondition/tearfree/sketchy.py')
  rep.encode('precondition.oco.algorithms._fd_update_fn/_fd_method_factors', 'precondition/oco/algorithms.py')
  rep.encode('precondition.distributed_shampoo._fd_update_root/_fd_low_rank_pack/_fd_low_rank_unpack/frequent_directions_update', 'precondition/distributed_shampoo.py')
  ts = tasks(rep.tier)
  rep.bounds = dict(tasks=len(ts), d=sorted({t['d'] for t in ts}), k=sorted({t['k'] for t in ts}), decay=sorted({t['decay'] for t in ts}),
                    history='one FD step from an arbitrary sketch state (l, t >= 0)')
  rep.stubs = ['svd -> fresh (s, U, V^T), contract: s descending and non-negative (+ unit-norm left singular vectors for the DS routine)',
               'qr -> fresh R with contract R^T R = X^T X', 'sqrt/pow uninterpreted with per-term axioms']
  rep.assumptions = ['exact real arithmetic', 'SVD/QR contracts as listed',
                     'lemma: step identities imply the PSD bracket (textbook FD argument; z3 returns unknown on the direct query)']
  rep.outside = ['floating-point safeguards of _fd_update_root (1% norm test, padding-mass test) beyond the exact-SVD case',
                 'padding > 0 in the DS routine for F2/F4 (needs the full SVD contract)', 'orthonormality of the stored directions (contract of the SVD)']
  run_tasks('vp.props.c09', 'work', ts, report=rep)
