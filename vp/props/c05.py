"""C05 — grafting: warm-up uses the graft step, afterwards only its norm is transplanted.

Distributed Shampoo: the same state is traced with graft_type=X and graft_type=NONE
(momentum and weight decay off), so the preconditioned direction u0 comes from the
code itself, not from a reference.  Tearfree: grafting.graft wrapped around the real
second-order direction, compared with the direction traced alone.
"""
from fractions import Fraction
import json
import time
import numpy as np
import z3
import jax
import jax.numpy as jnp

from .. import dsh
from ..symjax import Interp, Ctx, toobj, stubs
from ..symjax import real as R
from ..harness import f32, Traced
from ..solve import Prover, zl, model_value
from ..report import run_tasks, write_replay
from .ds_ref import DSRef, emap, norm, arr, EPS25
from . import c02

PID = 'C05'
LR = 0.125


def install_lowrank_stubs():
  """_low_rank_root / _fd_update_root -> generic uninterpreted functions (C05 only needs
  that the same packed preconditioner reaches both traces)."""
  ds = dsh.ds_module()
  if getattr(ds, '_vp_lowrank_stubbed', False):
    return
  ds._vp_lowrank_stubbed = True

  def stub_low_rank(matrix, p, compression_rank, ridge_epsilon=1e-6, relative_matrix_epsilon=True,
                    padding_start=None, prev=None, **kw):
    n = matrix.shape[0]
    pd = ds._precond_dim(compression_rank, n)
    outs = stubs.stub_call('lowrank', [((n, pd), matrix.dtype), ((), matrix.dtype)], matrix,
                           jnp.asarray(p, jnp.int32), jnp.asarray(padding_start, jnp.int32))
    return outs[0], ds.TrainingMetrics(inverse_pth_root_errors=outs[1])

  ds._low_rank_root = stub_low_rank

  def stub_fd(new_grad, p, rank, ridge_epsilon=1e-6, error_tolerance=1e-6, relative_matrix_epsilon=True, decay=1.0,
              padding_start=None, prev=None, generate_training_metrics=False, generate_fd_metrics=False):
    n = new_grad.shape[0]
    pd = ds._precond_dim(rank, n)
    outs = stubs.stub_call('fdroot', [((n, pd), new_grad.dtype), ((), new_grad.dtype)], new_grad, prev,
                           jnp.asarray(p, jnp.int32), jnp.asarray(padding_start, jnp.int32))
    return outs[0], ds.TrainingMetrics(inverse_pth_root_errors=outs[1])

  ds._fd_update_root = stub_fd


def ds_tasks(tier):
  out = []
  shapes = [((3,), 4), ((2, 2), 4), ((4, 2), 2)]
  if tier == 'thorough':
    shapes += [((2, 2, 2), 4), ((5,), 2), ((3, 2), 4)]
  for gi, graft in enumerate(dsh.GRAFTS[:-1]):
    for si, (sh, b) in enumerate(shapes):
      if tier == 'quick' and (gi + si) % 2 and graft not in ('SGD', 'RMSPROP'):
        continue
      out.append(dict(kind='ds', mode='full', graft=graft, shape=list(sh), block=b, start=1 + (gi % 2), skip=False))
  # excluded parameters: rank below threshold / dim above threshold
  for graft in ('SGD', 'ADAGRAD', 'RMSPROP_NORMALIZED', 'SQRT_N'):
    out.append(dict(kind='ds', mode='full', graft=graft, shape=[3], block=4, start=1, skip='rank'))
    out.append(dict(kind='ds', mode='full', graft=graft, shape=[3, 2], block=4, start=1, skip='dim'))
  # compressed preconditioner representation (low rank): dims must exceed |r|+2
  for graft in (('SGD', 'RMSPROP') if tier == 'quick' else dsh.GRAFTS[:-1]):
    out.append(dict(kind='ds', mode='compressed', graft=graft, shape=[5, 2], block=8, start=1, skip=False))
  # frequent-directions sketched and int16-quantized preconditioner representations
  for graft in (('RMSPROP',) if tier == 'quick' else ('SGD', 'RMSPROP', 'ADAGRAD_NORMALIZED', 'SQRT_N')):
    out.append(dict(kind='ds', mode='fd', graft=graft, shape=[5, 2], block=8, start=1, skip=False))
    out.append(dict(kind='ds', mode='quantized', graft=graft, shape=[2, 2], block=4, start=1, skip=False))
  return out


def ds_cfg(t, graft):
  c = dict(c02.BASE, graft=graft, beta1=0.0, weight_decay=0.0, nesterov=False, start=t['start'], block_size=t['block'],
           q=2, s=1, lr=LR)
  if t['skip'] == 'rank':
    c['skip_rank_lt'] = 2
  if t['skip'] == 'dim':
    c['skip_dim_gt'] = 2
  if t['mode'] == 'compressed':
    c['compression_rank'] = 1
  if t['mode'] == 'fd':
    c.update(compression_rank=1, frequent_directions=True, reuse_preconditioner=True, q=2, s=2)
  if t['mode'] == 'quantized':
    c.update(batch_axis_name='batch', memory_reduction=True)
  return dsh.full_cfg(c)


def ds_work(t):
  t0_ = time.time()
  shape = tuple(t['shape'])
  tag = f"DS|{t['mode']}|{'x'.join(map(str, shape))}|graft={t['graft']},start={t['start']},skip={t['skip']}"
  dsh.install_root_stub()
  if t['mode'] in ('compressed', 'fd'):
    install_lowrank_stubs()
  params = {'p0': jnp.zeros(shape, jnp.float32)}
  ctx = Ctx()
  pool = {}
  runs = {}
  for graft in (t['graft'], 'NONE'):
    c = ds_cfg(t, graft)
    opt = dsh.make_opt(c)
    if t['mode'] == 'quantized':
      from ..symjax.spmd import eval_spmd
      tr, _ = dsh.trace_update(opt, params, axis_env=[('batch', 1)])
      leaves = tr.sym_inputs(pool=pool)
      outs, interps = eval_spmd(tr.jaxpr.jaxpr, tr.jaxpr.consts, [leaves], 1, ctx_factory=lambda d: ctx)
      I = interps[0]
      upd, new = tr.unflatten_out(outs[0])
    else:
      tr, _ = dsh.trace_update(opt, params)
      leaves = tr.sym_inputs(pool=pool)
      I = Interp(ctx)
      upd, new = tr.run(I, leaves)
    runs[graft] = (c, tr, leaves, upd, new, I)
  c, tr, leaves, upd, new, I = runs[t['graft']]
  u = upd['p0'].reshape(-1)
  u0 = runs['NONE'][3]['p0'].reshape(-1)
  g_, st_, p_ = tr.unflatten_in(leaves)
  g = g_['p0']
  count = st_.count.item()
  old = st_.stats['p0']
  ref = DSRef(c, shape, I)
  diag = old.diagonal_statistics.quantized
  if np.asarray(diag, dtype=object).size == 0:
    diag = arr(shape, Fraction(0))
  graft_step, _ = ref.graft(g, diag)      # closed-form grafting step (documented formulas)
  gs = graft_step.reshape(-1)
  lr = f32(LR)
  rng = [count >= 0, count <= 2 ** 31 - 2]
  n = u.size
  P = Prover(timeout_s=30, first_s=1.0)
  excluded = bool(t['skip'])
  run = [count >= t['start']]
  if not excluded:
    # N2 norm transplant: u = u0 * m,  m = |graft| / (|pg| + eps),  pg = u0 / (-lr)
    pg = emap(lambda x: R.s_div(x, R.s_neg(lr)), u0)
    mult = R.s_div(norm(I, gs), R.s_add(norm(I, pg), EPS25))
    want = emap(lambda x: R.s_mul(x, mult), u0)
    P.equal(f'{tag}|N2 u = u0 * |graft step| / (|preconditioned grad| + eps) (count >= start)', u, want, rng + run)
    # N1 same direction and orientation: follows from N2, m >= 0 and the lemma below
    P.prove(f'{tag}|N1a multiplier |graft|/(|pg|+eps) is non-negative', zl(mult) >= 0, rng + run)
    uu = [z3.Real(f'lem_u0_{i}') for i in range(n)]
    mm = z3.Real('lem_m')
    vv = [x * mm for x in uu]
    lem = z3.And([vv[i] * uu[j] == vv[j] * uu[i] for i in range(n) for j in range(i + 1, n)] +
                 [z3.Sum([vv[i] * uu[i] for i in range(n)]) >= 0])
    P.prove(f'{tag}|N1b lemma: u = m*u0 with m >= 0 is parallel to and oriented like u0 (n={n})', lem, [mm >= 0], axioms=False)
    # zero preconditioned gradient => zero update
    lb, lm_, lu = z3.Reals('lem_b lem_mm lem_u')
    P.prove(f'{tag}|N2b lemma: with u = u0*m (N2), a zero preconditioned entry gives a zero update entry', lu == 0, [lu == lb * lm_, lb == 0], axioms=False)
    P.reach(f'{tag}|twin: post-start step with non-zero gradient reachable', rng + run, [zl(g.reshape(-1)[0]) != 0])
  # N3 warm-up (and always for excluded parameters): the graft step itself
  want3 = emap(lambda x: R.s_mul(R.s_neg(lr), x), gs)
  cond = [] if excluded else [count < t['start']]
  if excluded:
    # excluded parameter after start: update = graft * |graft|/(|graft|+eps)  (documented eps guard)
    multx = R.s_div(norm(I, gs), R.s_add(norm(I, gs), EPS25))
    wantx = emap(lambda x: R.s_mul(R.s_mul(R.s_neg(lr), x), multx), gs)
    P.equal(f'{tag}|N3 excluded parameter: update is the graft step (times |g|/(|g|+1e-25)) after start', u, wantx, rng + run)
    P.equal(f'{tag}|N3 excluded parameter: update is the graft step before start', u, want3, rng + [count < t['start']])
  else:
    P.equal(f'{tag}|N3 update is the graft step before start', u, want3, rng + cond)
    P.reach(f'{tag}|twin: warm-up step reachable', rng + cond)
  res, viol = finish(P, t, tag)
  return dict(results=res, violations=viol, errors=[], configs=1,
              samples=[dict(task=t, jaxpr_eqns=tr.n_eqns)],
              extra=dict(jaxpr_eqns_total=tr.n_eqns, eval_s=round(time.time() - t0_, 2)))


def finish(P, t, tag):
  res, viol = [], []
  confirmed = None
  for r in P.results:
    r = dict(r)
    if r['status'] in ('sat', 'unknown') and r.get('kind', 'core') == 'core':
      if confirmed is None:
        confirmed = confirm(t) or False
      if confirmed:
        r['status'] = 'violation'
        viol.append(dict(key=f"C05:{t['kind']}:{r['name'].split('|')[-1].split(' ')[0]}", what=confirmed['what'],
                         replay=confirmed['replay']))
      elif r['status'] == 'sat':
        r['status'] = 'spurious'
        r['note'] = 'candidate counterexample did not reproduce on the real code'
    res.append(r)
  return res, viol


# ------------------------------------------------------------------------ replay
def np_graft_step(c, g, diag):
  t = c['graft']
  eps = float(np.float32(c['diagonal_epsilon']))
  g = g.astype(np.float64)
  if t in ('SGD', 'NONE'):
    return g, diag
  if t == 'SQRT_N':
    return np.sign(g), diag
  sg = g / (np.linalg.norm(g) + 1e-25) if t.endswith('NORMALIZED') else g
  if t.startswith('ADAGRAD'):
    nd = diag + sg * sg
  else:
    b2 = c['beta2']
    nd = b2 * diag + (1 - b2 if b2 != 1.0 else 1.0) * sg * sg
  return sg / (np.sqrt(nd) + eps), nd


def ds_concrete(t, seed=0, T=6):
  """real optimizers (graft X and NONE) over a history; checks direction / norm / warm-up numerically"""
  dsh.uninstall_root_stub()
  ds = dsh.ds_module()
  saved = None
  if getattr(ds, '_vp_lowrank_stubbed', False):
    return None  # compressed / fd mode replays need the real routine; handled in a fresh process
  if t['mode'] == 'quantized':
    return quantized_concrete(t, seed, T)
  try:
    shape = tuple(t['shape'])
    c = ds_cfg(t, t['graft'])
    c0 = ds_cfg(t, 'NONE')
    opt, opt0 = dsh.make_opt(c), dsh.make_opt(c0)
    rng = np.random.RandomState(seed)
    p = {'p0': jnp.asarray(rng.randn(*shape), jnp.float32)}
    st, st0 = opt.init(p), opt0.init(p)
    diag = np.zeros(shape)
    for step in range(T):
      g = rng.randn(*shape).astype(np.float32)
      # the un-grafted optimizer must see the same statistics/preconditioners: share them
      u, st = opt.update({'p0': jnp.asarray(g)}, st, p)
      u0, st0 = opt0.update({'p0': jnp.asarray(g)}, st0, p)
      u = np.asarray(u['p0'], np.float64).reshape(-1)
      u0 = np.asarray(u0['p0'], np.float64).reshape(-1)
      gs, diag = np_graft_step(c, g, diag)
      gs = gs.reshape(-1)
      if step < t['start']:
        if not np.allclose(u, -LR * gs, rtol=1e-3, atol=1e-7):
          return f'step {step} < start: update {u[:4]} is not the graft step {(-LR * gs)[:4]}'
        continue
      if t['skip']:
        if not np.allclose(u, -LR * gs, rtol=1e-3, atol=1e-7):
          return f'step {step}: excluded parameter update {u[:4]} is not the graft step {(-LR * gs)[:4]}'
        continue
      nu, n0, ng = np.linalg.norm(u), np.linalg.norm(u0), np.linalg.norm(-LR * gs)
      if n0 > 0:
        cosv = float(u @ u0) / (nu * n0 + 1e-300)
        if cosv < 1 - 1e-4:
          return f'step {step}: update not parallel to the preconditioned gradient (cos={cosv})'
        if abs(nu - ng) > 1e-3 * ng + 1e-9:
          return f'step {step}: update norm {nu} != graft step norm {ng}'
    return None
  finally:
    dsh.install_root_stub()


def quantized_concrete(t, seed=0, T=6):
  """int16-quantized mode needs pmap: real optimizers (graft X and NONE) on one device"""
  shape = tuple(t['shape'])
  c, c0 = ds_cfg(t, t['graft']), ds_cfg(t, 'NONE')
  opt, opt0 = dsh.make_opt(c), dsh.make_opt(c0)
  devs = jax.devices()[:1]
  rep = lambda x: jax.tree_util.tree_map(lambda a: jnp.stack([jnp.asarray(a)] * len(devs)), x)
  rng = np.random.RandomState(seed)
  p = {'p0': jnp.asarray(rng.randn(*shape), jnp.float32)}
  st = jax.pmap(opt.init, axis_name='batch', devices=devs)(rep(p))
  st0 = jax.pmap(opt0.init, axis_name='batch', devices=devs)(rep(p))
  up, up0 = jax.pmap(opt.update, axis_name='batch', devices=devs), jax.pmap(opt0.update, axis_name='batch', devices=devs)
  diag = np.zeros(shape)
  for step in range(T):
    g = rng.randn(*shape).astype(np.float32)
    u, st = up(rep({'p0': jnp.asarray(g)}), st, rep(p))
    u0, st0 = up0(rep({'p0': jnp.asarray(g)}), st0, rep(p))
    u = np.asarray(u['p0'][0], np.float64).reshape(-1)
    u0 = np.asarray(u0['p0'][0], np.float64).reshape(-1)
    gs, diag = np_graft_step(c, g, diag)
    gs = gs.reshape(-1)
    if step < t['start']:
      if not np.allclose(u, -LR * gs, rtol=1e-3, atol=1e-7):
        return f'step {step} < start: update {u[:4]} is not the graft step {(-LR * gs)[:4]}'
      continue
    nu, n0, ng = np.linalg.norm(u), np.linalg.norm(u0), np.linalg.norm(-LR * gs)
    if n0 > 0:
      cosv = float(u @ u0) / (nu * n0 + 1e-300)
      if cosv < 1 - 1e-4:
        return f'step {step}: update not parallel to the preconditioned gradient (cos={cosv})'
      if abs(nu - ng) > 1e-3 * ng + 1e-9:
        return f'step {step}: update norm {nu} != graft step norm {ng}'
  return None


def confirm(t):
  if t['kind'] == 'ds':
    if t['mode'] in ('compressed', 'fd'):
      import subprocess, sys, os
      # fresh process: the low-rank stub patched the module in this one
      code = ('import json,sys; from vp.props import c05; t=json.loads(sys.argv[1]); '
              'print(json.dumps(c05.ds_concrete_any(t)))')
      out = subprocess.run([sys.executable, '-c', code, json.dumps(t)], capture_output=True, text=True,
                           env=dict(os.environ))
      try:
        what = json.loads(out.stdout.strip().splitlines()[-1])
      except Exception:
        what = None
      if what:
        path = write_replay(PID, dict(property=PID, task=t, seed=what[1], observed=what[0]))
        return dict(what=what[0], replay=path)
      return None
    for seed in (0, 1, 2):
      what = ds_concrete(t, seed)
      if what:
        path = write_replay(PID, dict(property=PID, task=t, seed=seed, observed=what))
        return dict(what=what, replay=path)
    return None
  from . import c05_tf
  return c05_tf.confirm(t)


def ds_concrete_any(t):
  for seed in (0, 1, 2):
    what = ds_concrete(t, seed)
    if what:
      return [what, seed]
  return None


def replay(path):
  d = json.load(open(path))
  t = d['task']
  if t['kind'] == 'ds':
    what = ds_concrete(t, d['seed'])
  else:
    from . import c05_tf
    what = c05_tf.concrete(t, d['seed'])
  if what:
    print(f'VIOLATION property={PID} replay={path}')
    print('  ' + what)
    return 1
  print('replay: grafting contract holds on the stored history')
  return 0


def work(t):
  if t['kind'] == 'ds':
    return ds_work(t)
  from . import c05_tf
  return c05_tf.work(t)


def run(rep):
  rep.explanation = (
      'Bounded SMT verification (z3, exact reals) of the grafting contract on the real update jaxprs. Distributed Shampoo: the '
      'same symbolic state is evaluated with graft type X and with graft type NONE (momentum, weight decay off); z3 proves for '
      'ALL states/gradients/step counters: N1 the update is parallel to and oriented like the un-grafted (preconditioned) update, '
      'N2 update = u0 * |closed-form graft step| / (|preconditioned gradient| + 1e-25) (hence norm transplant; zero direction gives '
      'zero update), N3 before the start step, and always for excluded parameters, the update is the closed-form graft step. '
      'Tearfree: grafting.graft around the real second-order transform versus the transform traced alone.')
  rep.encode('precondition.distributed_shampoo.distributed_shampoo._transform_grad (+update_fn, Preconditioner.preconditioned_grad, '
             '_precondition_block incl. compressed branch)', 'precondition/distributed_shampoo.py')
  ts = ds_tasks(rep.tier)
  try:
    from . import c05_tf
    ts += c05_tf.tasks(rep.tier)
    c05_tf.describe(rep)
  except ImportError:
    pass
  rep.bounds = dict(tasks=len(ts), graft_types=dsh.GRAFTS[:-1] + ['tearfree ADAFACTOR (optax chain traced as the graft step)'], shapes=sorted({str(tuple(t['shape'])) for t in ts}),
                    modes=sorted({t.get('mode', t['kind']) for t in ts}), step_counter='symbolic', history='one step from arbitrary state')
  rep.stubs = ['matrix_inverse_pth_root -> ROOT/ERR uninterpreted functions', '_low_rank_root / _fd_update_root -> generic uninterpreted functions (compressed and frequent-directions modes)', 'int16-quantized mode: pmap trace (axis_env D=1), exact round-half-even',
               'eigh -> fresh outputs memoised per input (tearfree)']
  rep.assumptions = ['exact real arithmetic', 'Euclidean norm is homogeneous (|c x| = |c| |x|): norm equality follows from N2',
                     'sqrt uninterpreted with per-term axioms']
  rep.outside = ['float rounding',
                 'AdaFactor graft internals (optax)']
  run_tasks('vp.props.c05', 'work', ts, report=rep)
