"""C04, Tearfree part: cadence of tearfree Shampoo, Sketchy and the grafting wrapper."""
from fractions import Fraction
import json
import time
import numpy as np
import z3
import jax
import jax.numpy as jnp

from .. import tfh
from ..symjax import Interp, Ctx, toobj, stubs
from ..symjax import real as R
from ..harness import f32, Traced
from ..solve import Prover, zl, differing
from ..report import write_replay

PID = 'C04'


def tasks(tier):
  out = []
  freqs = [(1, 2), (2, 1), (2, 3), (3, 2)] if tier == 'quick' else [(a, b) for a in (1, 2, 3, 5) for b in (1, 2, 3, 5)]
  shapes = [((2, 2), 4), ((4,), 2)] if tier == 'quick' else [((2, 2), 4), ((4,), 2), ((4, 2), 2), ((2, 2, 2), 4)]
  for i, (fs, fp) in enumerate(freqs):
    sh, b = shapes[i % len(shapes)]
    out.append(dict(kind='tf_shampoo', shape=list(sh), cfg=dict(block_size=b, fs=fs, fp=fp, decay=(0.875, 1.0)[i % 2])))
  for i, f in enumerate((2, 3) if tier == 'quick' else (1, 2, 3, 5, 8)):
    sh = [(3,), (3, 2)][i % 2]
    out.append(dict(kind='tf_sketchy', shape=list(sh), cfg=dict(sk_freq=f, sk_rank=1, decay=(0.5, 1.0)[i % 2])))
  for i, t0 in enumerate((0, 1, 2) if tier == 'quick' else (0, 1, 2, 7)):
    for graft in ('SGD', 'RMSPROP'):
      out.append(dict(kind='tf_graft', shape=[2, 2], cfg=dict(graft=graft, start=t0, block_size=4, fs=1, fp=2,
                                                              momentum_decay=0.75, weight_decay=0.125 * (i % 2))))
  return out


def describe(rep):
  rep.encode('precondition.tearfree.shampoo._update (+_update_block_stats, _update_block_precond, _pth_inv_root, _blockify)',
             'precondition/tearfree/shampoo.py')
  rep.encode('precondition.tearfree.sketchy._update (+_update_sketches, _update_axis)', 'precondition/tearfree/sketchy.py')
  rep.encode('precondition.tearfree.grafting._graft_with.update_fn', 'precondition/tearfree/grafting.py')
  rep.encode('precondition.tearfree.optimizer.tearfree (all step counters)', 'precondition/tearfree/optimizer.py')
  rep.stubs.append('eigh / svd / qr primitives -> fresh outputs memoised per input term (free contract)')


def flat(tree):
  ls = jax.tree_util.tree_leaves(tree, is_leaf=lambda x: isinstance(x, np.ndarray))
  return np.concatenate([toobj(x).reshape(-1) for x in ls]) if ls else np.zeros((0,), dtype=object)


def twin_change(P, name, new, old, assume):
  d = differing(new, old)
  P.reach(name, assume, [z3.Or([a != b for a, b in d])] if d else [z3.BoolVal(False)])


def work(task):
  t0_ = time.time()
  c = tfh.full_cfg(task['cfg'])
  shape = tuple(task['shape'])
  kind = task['kind']
  params = {'w': jnp.zeros(shape, jnp.float32)}
  _, second_order, shampoo, sketchy, grafting, momentum, reshaper = tfh.mods()
  P = Prover(timeout_s=30, first_s=1.0)
  I = Interp(Ctx())
  if kind == 'tf_shampoo':
    fs, fp = c['fs'], c['fp']
    tag = f"TF-Shampoo|{'x'.join(map(str, shape))}|block={c['block_size']},fs={fs},fp={fp},decay={c['decay']}"
    tx = shampoo.apply(tfh.shampoo_options(c))
    tr, _ = tfh.trace_tx(tx, params)
    leaves = tr.sym_inputs()
    # statistics are symmetric matrices (invariant of the update): parametrise them so
    for nm, leaf in zip(tr.names, leaves):
      if '.stats' in nm and leaf.ndim == 3:
        for n in range(leaf.shape[0]):
          for i in range(leaf.shape[1]):
            for j in range(i):
              leaf[n, i, j] = leaf[n, j, i]
    g_, st_, _ = tr.unflatten_in(leaves)
    upd, new = tr.run(I, leaves)
    count = st_.count.item()
    rng = [count >= 0, count <= 2 ** 31 - 2]
    ob, nb = st_.blocks['w'], new.blocks['w']
    P.equal(f'{tag}|K1 count+1', new.count, np.array(R.s_add(count, 1), dtype=object), rng)
    if fs > 1:
      P.equal(f'{tag}|K2 statistics unchanged when count % fs != 0', flat(nb.stats), flat(ob.stats), rng + [count % fs != 0])
      twin_change(P, f'{tag}|K2 twin: statistics can change on-step', flat(nb.stats), flat(ob.stats), rng + [count % fs == 0])
    if fp > 1:
      P.equal(f'{tag}|K3 roots unchanged when count % fp != 0', flat(nb.roots), flat(ob.roots), rng + [count % fp != 0])
      twin_change(P, f'{tag}|K3 twin: roots can change on-step', flat(nb.roots), flat(ob.roots), rng + [count % fp == 0])
    # K4: the eigendecomposition is taken of the statistics *after* this step's update
    fed = [rec['a'] for rec in I.ctx.decomps if rec['kind'] == 'eigh']
    want = [nb.stats[ax][n] for ax in range(len(nb.stats)) for n in range(nb.stats[ax].shape[0])]
    ok = len(fed) == len(want)
    P.results.append(dict(name=f'{tag}|K4 one eigendecomposition per (axis, block)', status='unsat' if ok else 'sat',
                          kind='core', queries=0, note=f'{len(fed)} eigh applications for {len(want)} matrices'))
    if ok:
      P.equal(f'{tag}|K4 roots are computed from the statistics after this step\'s update',
              np.concatenate([toobj(a).reshape(-1) for a in fed]), np.concatenate([toobj(a).reshape(-1) for a in want]), rng)
      # K4': on EVERY multiple of the preconditioner frequency the stored roots are the masked eigen-form of that
      # decomposition (not the old roots), whatever the statistics frequency
      from ..harness import f32 as _f32
      pw = 2 * len(shape)
      recs = [rec for rec in I.ctx.decomps if rec['kind'] == 'eigh']
      k_ = 0
      for ax in range(len(nb.stats)):
        for n in range(nb.stats[ax].shape[0]):
          w, V = recs[k_]['w'], recs[k_]['V']
          k_ += 1
          d_ = len(w)
          wmax = w[0]
          for j in range(1, d_):
            wmax = R.s_max(wmax, w[j])
          root = np.empty((d_, d_), dtype=object)
          for i in range(d_):
            for j in range(d_):
              acc = Fraction(0)
              for kk in range(d_):
                keep = R.s_not(R.s_le(w[kk], R.s_mul(_f32(1e-6), wmax)))
                h = I.pow(w[kk], _f32(-0.5 / pw))
                acc = R.s_add(acc, R.s_mul(R.s_if(keep, R.s_mul(h, h), Fraction(0)), R.s_mul(V[i, kk], V[j, kk])))
              root[i, j] = acc
          sp = [zl(w[kk]) <= zl(R.s_mul(_f32(1e-6), wmax)) for kk in range(d_)]
          P.equal(f'{tag}|K4 roots axis {ax} block {n} are refreshed (eigen-form of the current statistics) whenever count % fp == 0',
                  nb.roots[ax][n], root, rng + ([count % fp == 0] if fp > 1 else []), split=sp)
  elif kind == 'tf_sketchy':
    f = c['sk_freq']
    tag = f"TF-Sketchy|{'x'.join(map(str, shape))}|rank={c['sk_rank']},freq={f},decay={c['decay']}"
    tx = sketchy.apply(tfh.sketchy_options(c))
    tr, _ = tfh.trace_tx(tx, params)
    leaves = tr.sym_inputs()
    g_, st_, _ = tr.unflatten_in(leaves)
    upd, new = tr.run(I, leaves)
    count = st_.count.item()
    rng = [count >= 0, count <= 2 ** 31 - 2]
    P.equal(f'{tag}|K1 count+1', new.count, np.array(R.s_add(count, 1), dtype=object), rng)
    if f > 1:
      P.equal(f'{tag}|K2 sketches unchanged when count % freq != 0', flat(new.sketches), flat(st_.sketches), rng + [count % f != 0])
      twin_change(P, f'{tag}|K2 twin: sketches can change on-step', flat(new.sketches), flat(st_.sketches), rng + [count % f == 0])
    P.reach(f'{tag}|twin: on-step reachable', rng, [count % f == 0])
  else:
    t0 = c['start']
    tag = f"TF-graft|{'x'.join(map(str, shape))}|graft={c['graft']},start={t0},wd={c['weight_decay']}"
    tx = tfh.make_tearfree(c)
    tr, _ = tfh.trace_tx(tx, params)
    leaves = tr.sym_inputs()
    g_, st_, p_ = tr.unflatten_in(leaves)
    upd, new = tr.run(I, leaves)
    # K1 on every counter in the chain
    counts_old = [(k, v) for k, v in jax.tree_util.tree_flatten_with_path(st_, is_leaf=lambda x: isinstance(x, np.ndarray))[0]
                  if 'count' in jax.tree_util.keystr(k)]
    counts_new = [(k, v) for k, v in jax.tree_util.tree_flatten_with_path(new, is_leaf=lambda x: isinstance(x, np.ndarray))[0]
                  if 'count' in jax.tree_util.keystr(k)]
    rng = []
    for (k, v) in counts_old:
      rng += [v.item() >= 0, v.item() <= 2 ** 31 - 2]
    for (k, v), (k2, v2) in zip(counts_old, counts_new):
      P.equal(f'{tag}|K1 {jax.tree_util.keystr(k)}+1', v2, np.array(R.s_add(v.item(), 1), dtype=object), rng)
    # K5 warm-up: before the start step the update is momentum(weight decay(graft step))
    gcount = st_[0].count.item()
    g = g_['w']
    if c['graft'] == 'SGD':
      gs = g
    else:
      b = f32(c['graft_decay'])
      acc = st_[0].norm.acc['w']
      gs = np.empty(shape, dtype=object)
      for idx in np.ndindex(shape):
        a2 = R.s_add(R.s_mul(R.s_mul(g[idx], g[idx]), f32(1 - c['graft_decay'])), R.s_mul(b, acc[idx]))
        gs[idx] = R.s_mul(g[idx], R.s_div(1, I.sqrt(R.s_add(a2, f32(c['graft_eps'])))))
    # momentum: trace with nesterov, decay beta; weight decay after momentum
    beta = f32(c['momentum_decay'])
    wd = f32(c['weight_decay'])
    tr_state = [s for s in jax.tree_util.tree_leaves(st_[1], is_leaf=lambda x: isinstance(x, np.ndarray))]
    mom = tr_state[0]
    want = np.empty(shape, dtype=object)
    for idx in np.ndindex(shape):
      v = R.s_add(gs[idx], R.s_mul(beta, mom[idx]))
      out = R.s_add(gs[idx], R.s_mul(beta, v)) if c['nesterov'] else v
      if c['weight_decay'] > 0:
        out = R.s_add(out, R.s_mul(wd, p_['w'][idx]))
      want[idx] = R.s_mul(R.s_neg(f32(c['lr'])), out)
    if t0 > 0:
      P.equal(f'{tag}|K5 update = -lr*(momentum(graft step) + wd*p) when count < start', upd['w'], want, rng + [gcount < t0])
      P.reach(f'{tag}|K5 twin: warm-up reachable', rng, [gcount < t0])
    P.reach(f'{tag}|K5 twin: boundary step count == start reachable', rng, [gcount == t0])
    if t0 > 0:
      # from the start step on the update is that of the optimizer which preconditions from step 0
      tx0 = tfh.make_tearfree(dict(c, start=0))
      tr0, _ = tfh.trace_tx(tx0, params)
      upd0, _ = tr0.run(Interp(I.ctx), leaves)
      P.equal(f'{tag}|K5 update = preconditioned (start=0 optimizer) update when count >= start', upd['w'], upd0['w'],
              rng + [gcount >= t0])
    # after start the direction comes from the preconditioner: see C05 (tearfree part)
  res, viol = [], []
  confirmed = None
  for r in P.results:
    r = dict(r)
    if r['status'] in ('sat', 'unknown') and r.get('kind', 'core') == 'core':
      if confirmed is None:
        confirmed = confirm(task) or False
      if confirmed:
        r['status'] = 'violation'
        viol.append(dict(key=f"C04:{kind}:{r['name'].split('|')[-1].split(' ')[0]}", what=confirmed['what'], replay=confirmed['replay']))
      elif r['status'] == 'sat':
        r['status'] = 'spurious'
        r['note'] = 'candidate counterexample did not reproduce on the real code'
    res.append(r)
  return dict(results=res, violations=viol, errors=[], configs=1,
              samples=[dict(kind=kind, config=task['cfg'], shape=list(shape), jaxpr_eqns=tr.n_eqns)],
              extra=dict(jaxpr_eqns_total=tr.n_eqns, eval_s=round(time.time() - t0_, 2)))


# ------------------------------------------------------------------------- replay
def bits(x):
  return [np.asarray(l).tobytes() for l in jax.tree_util.tree_leaves(x)]


def concrete(task, seed=0):
  c = tfh.full_cfg(task['cfg'])
  shape = tuple(task['shape'])
  kind = task['kind']
  _, second_order, shampoo, sketchy, grafting, momentum, reshaper = tfh.mods()
  rng = np.random.RandomState(seed)
  p = {'w': jnp.asarray(rng.randn(*shape), jnp.float32)}
  if kind == 'tf_shampoo':
    fs, fp = c['fs'], c['fp']
    tx = shampoo.apply(tfh.shampoo_options(c))
    st = tfh.quiet(tx.init, p)
    pw = 2 * len(shape)
    for t in range(2 * fs * fp + 3):
      g = {'w': jnp.asarray(rng.randn(*shape), jnp.float32)}
      u, st2 = tfh.quiet(tx.update, g, st, p)
      a, b = st.blocks['w'], st2.blocks['w']
      if int(st2.count) != int(st.count) + 1:
        return f'step {t}: counter advanced by {int(st2.count) - int(st.count)}'
      if t % fs != 0 and bits(a.stats) != bits(b.stats):
        return f'step {t}: statistics changed although {t} % {fs} != 0'
      if t % fs == 0 and bits(a.stats) == bits(b.stats):
        return f'step {t}: statistics did not change although {t} % {fs} == 0'
      if t % fp != 0 and bits(a.roots) != bits(b.roots):
        return f'step {t}: roots changed although {t} % {fp} != 0'
      if t % fp == 0:
        for ax in range(len(b.stats)):
          want = shampoo._pth_inv_root(pw, b.stats[ax])
          if not np.allclose(np.asarray(want), np.asarray(b.roots[ax]), rtol=1e-4, atol=1e-6):
            return f'step {t}: roots of axis {ax} are not the inverse roots of the current statistics'
      st = st2
    return None
  if kind == 'tf_sketchy':
    f = c['sk_freq']
    tx = sketchy.apply(tfh.sketchy_options(c))
    st = tfh.quiet(tx.init, p)
    for t in range(2 * f + 3):
      g = {'w': jnp.asarray(rng.randn(*shape), jnp.float32)}
      u, st2 = tfh.quiet(tx.update, g, st, p)
      if int(st2.count) != int(st.count) + 1:
        return f'step {t}: counter advanced by {int(st2.count) - int(st.count)}'
      if t % f != 0 and bits(st.sketches) != bits(st2.sketches):
        return f'step {t}: sketches changed although {t} % {f} != 0'
      if t % f == 0 and bits(st.sketches) == bits(st2.sketches):
        return f'step {t}: sketches did not change although {t} % {f} == 0'
      st = st2
    return None
  # grafting wrapper: compare with the same optimizer that never starts preconditioning
  tx = tfh.make_tearfree(c)
  txg = tfh.make_tearfree(dict(c, start=2 ** 30))
  tx0 = tfh.make_tearfree(dict(c, start=0))
  st, stg = tfh.quiet(tx.init, p), tfh.quiet(txg.init, p)
  for t in range(c['start'] + 3):
    g = {'w': jnp.asarray(rng.randn(*shape), jnp.float32)}
    if t >= c['start']:
      u0, _ = tfh.quiet(tx0.update, g, st, p)
      u1, _ = tfh.quiet(tx.update, g, st, p)
      if bits(u0) != bits(u1):
        return f'step {t} >= start {c["start"]}: update is not the preconditioned update'
    u, st = tfh.quiet(tx.update, g, st, p)
    ug, stg = tfh.quiet(txg.update, g, stg, p)
    cs = [int(v) for k, v in jax.tree_util.tree_flatten_with_path(st)[0] if 'count' in jax.tree_util.keystr(k)]
    if any(x != t + 1 for x in cs):
      return f'step {t}: counters {cs} != {t + 1}'
    if t < c['start'] and bits(u) != bits(ug):
      return f'step {t} < start {c["start"]}: update is not the grafting optimizer\'s momentum update'
  return None


def confirm(task):
  for seed in (0, 1):
    what = concrete(task, seed)
    if what:
      path = write_replay(PID, dict(property=PID, kind=task['kind'], task=task, seed=seed, observed=what))
      return dict(what=what, replay=path)
  return None


def replay_what(d):
  return concrete(d['task'], d['seed'])
