"""C02 — Distributed Shampoo update equals the documented blocked-Shampoo math.

One symbolic update step of the real `distributed_shampoo(...).update` (inverse roots
abstracted as uninterpreted functions of the unpadded statistics block) is compared,
leaf by leaf, with an independent reference model (ds_ref.DSRef) for ALL states,
gradients, parameters and step counters.
"""
from fractions import Fraction
import itertools
import json
import math
import time
import numpy as np
import z3
import jax
import jax.numpy as jnp

from .. import dsh
from ..symjax import Interp, Ctx, toobj
from ..symjax import real as R
from ..symjax.concrete import ConcreteInterp
from ..harness import differential, f32
from ..solve import Prover, zl, model_value
from ..report import run_tasks, write_replay
from .ds_ref import DSRef, arr, emap

PID = 'C02'
BASE = dict(matrix_epsilon=0.125)


def pairwise_configs(tier, seed=0):
  """configurations covering every option value (pairwise-ish, deterministic)"""
  opts = dict(
      graft=dsh.GRAFTS,
      beta1=[0.75, 0.0],
      beta2=[0.875, 1.0],
      nesterov=[True, False],
      moving_average=[False, True],
      weight_decay=[0.0, 0.125],
      decoupled_wd=[False, True],
      decoupled_lr=[True, False],
      lr_schedule=[False, True],
      start=[2, 0, 1],
      s=[1, 2, 3],
      q=[1, 3, 2],
      exponent_override=[0, 3],
      ptype=['ALL', 'INPUT', 'OUTPUT'],
      merge=[False, True],
  )
  keys = list(opts)
  n = 24 if tier == 'quick' else 160
  rng = np.random.RandomState(1234 + seed)
  cfgs = []
  # first rows: cycle every option so each value appears; later rows random
  for i in range(n):
    c = {}
    for j, k in enumerate(keys):
      vals = opts[k]
      if i < 8:
        c[k] = vals[(i + (j % 2) * (i // len(vals))) % len(vals)] if i < 7 else vals[0]
      else:
        c[k] = vals[rng.randint(len(vals))]
    cfgs.append(c)
  return cfgs


def shapes_for(tier):
  if tier == 'quick':
    return [((), 4), ((3,), 4), ((2, 2), 4), ((4, 2), 2)]
  return [((), 4), ((3,), 4), ((2, 2), 4), ((4, 2), 2), ((2, 1, 2), 4), ((2, 2, 2), 4), ((5,), 2), ((3, 2), 2)]


def tasks(tier, seed=0):
  cfgs = pairwise_configs(tier, seed)
  shapes = shapes_for(tier)
  out = []
  for i, c in enumerate(cfgs):
    # every config on one or two shapes (rotating) so that quick stays quick
    ks = [i % len(shapes)] if tier == 'quick' else [i % len(shapes), (i * 3 + 1) % len(shapes)]
    for k in sorted(set(ks)):
      sh, b = shapes[k]
      cc = dict(BASE)
      cc.update(c)
      cc['block_size'] = b
      cc['merge_block'] = 4
      if len(sh) == 3 and not cc['merge']:
        pass
      out.append(dict(cfg=cc, shape=list(sh)))
  # a few fixed, hand-chosen corner configurations
  for extra in [
      dict(cfg=dict(BASE, graft='RMSPROP', block_size=2, q=3, s=2, start=2), shape=[2, 2]),
      dict(cfg=dict(BASE, graft='SGD', block_size=4, skip_rank_lt=2), shape=[3]),
      dict(cfg=dict(BASE, graft='ADAGRAD', block_size=4, skip_dim_gt=2), shape=[3, 2]),
      dict(cfg=dict(BASE, graft='RMSPROP_NORMALIZED', block_size=2, merge=True, merge_block=4, ptype='INPUT'), shape=[2, 2, 2]),
  ]:
    out.append(extra)
  return out


def sharded_tasks(tier):
  out = []
  base = [dict(graft='RMSPROP', q=2, s=1, start=1), dict(graft='SGD', q=1, s=2, start=0, nesterov=False, weight_decay=0.125),
          dict(graft='ADAGRAD', q=3, s=1, start=2, moving_average=True, decoupled_wd=True, weight_decay=0.125, exponent_override=3)]
  if tier == 'thorough':
    base += [dict(graft='SQRT_N', q=2, s=3, start=1, decoupled_lr=False), dict(graft='RMSPROP_NORMALIZED', q=1, s=1, start=0, lr_schedule=True),
             dict(graft='NONE', q=2, s=2, start=2, beta1=0.0)]
  for i, c in enumerate(base):
    for shapes, D in (([(2, 2)], 1), ([(3,), (2, 2)], 2)) if (tier == 'thorough' or i == 0) else (([(2, 2)], 1 + i % 2),):
      out.append(dict(sharded=True, cfg=dict(BASE, block_size=4, **c), shapes=[list(x) for x in shapes], D=D))
  return out


def sharded_work(task):
  """sharded variant: same documented math, with the update using the preconditioners of the PREVIOUS refresh"""
  t0 = time.time()
  c = dsh.full_cfg(task['cfg'])
  shapes = [tuple(x) for x in task['shapes']]
  D = task['D']
  tag = 'sharded|' + '+'.join('x'.join(map(str, x)) for x in shapes) + f'|D={D}|' + ','.join(f'{k}={v}' for k, v in sorted(task['cfg'].items()) if k != 'matrix_epsilon')
  dsh.install_root_stub()
  params = dsh.zeros_tree(shapes)
  try:
    tr, state0, opt, mesh = dsh.trace_sharded(c, params, D)
  except dsh.RealCodeError as ex:
    what = sharded_history(task, seed=0)
    if what is None:
      return dict(results=[], violations=[], errors=[f'{tag}: trace failed: {ex}'], configs=1)
    path = write_replay(PID, dict(property=PID, mode='sharded', task=task, seed=0, observed=what))
    return dict(results=[dict(name=f'{tag}|real code raises', status='violation', kind='core', queries=0)],
                violations=[dict(key='C02:sharded:crash', what=what, replay=path)], errors=[], configs=1)
  I = Interp(Ctx())
  leaves = tr.sym_inputs()
  for k, nm in enumerate(tr.names):
    if nm.endswith('.exponents'):
      leaves[k] = np.asarray(tr.flat[k])
  g_, st_, p_ = tr.unflatten_in(leaves)
  upd, new = tr.run(I, leaves)
  count = st_.count.item()
  assume = [count >= 0, count <= 2 ** 31 - 2]
  gs_old, gs_new = st_.stats.global_stats, new.stats.global_stats
  msize = gs_old.statistics.shape[1]
  thr = R.rlit(f32(c['thr']))
  P = Prover(timeout_s=30, first_s=1.0)
  P.equal(f'{tag}|count', new.count, np.array(R.s_add(count, 1), dtype=object), assume)
  slot = 0
  for key in sorted(params):
    shape = tuple(params[key].shape)
    ref = DSRef(c, shape, I)
    loc_old, loc_new = st_.stats.local_stats[key], new.stats.local_stats[key]
    sizes = list(state0.stats.local_stats[key].sizes)
    stats_old = [gs_old.statistics[slot + k][:sizes[k], :sizes[k]] for k in range(ref.nstat)]
    pre_old = [gs_old.preconditioners[slot + k][:sizes[k], :sizes[k]] for k in range(ref.nstat)]
    stats = ref.statistics(g_[key], stats_old, count)
    old_err = loc_old.training_metrics.inverse_pth_root_errors if c['metrics'] else None
    pre_new, errs, roots = ref.preconditioners(stats, pre_old, old_err, count)
    split = [count >= c['start']] + ([count % c['s'] == 0] if c['s'] > 1 else []) + ([count % c['q'] == 0] if c['q'] > 1 else []) + [e >= thr for _, e in roots]
    for k in range(ref.nstat):
      # only the real block is part of the documented state; how the padding is filled is bookkeeping
      P.equal(f'{tag}|{key} global statistics[{slot + k}] (real block)', gs_new.statistics[slot + k][:sizes[k], :sizes[k]], stats[k], assume, split)
      # stored preconditioner: accepted zero-padded root, else the old padded one
      on = ref.step_on(count, c['q'])
      accept = R.s_and(on, R.s_not(R.s_ge(roots[k][1], f32(c['thr']))))
      want_p = emap(lambda r_, o_: R.s_if(accept, r_, o_), roots[k][0], pre_old[k])
      P.equal(f'{tag}|{key} global preconditioners[{slot + k}] (real block)', gs_new.preconditioners[slot + k][:sizes[k], :sizes[k]], want_p, assume, split)
    if ref.nstat and c['metrics']:
      P.equal(f'{tag}|{key} inverse_pth_root_errors', loc_new.training_metrics.inverse_pth_root_errors, np.array(errs, dtype=object), assume, split)
    diag = loc_old.diagonal_statistics.quantized
    if np.asarray(diag, dtype=object).size == 0:
      diag = arr(shape, Fraction(0))
    # the update is built from the preconditioners stored BEFORE this step (previous refresh)
    out = ref.transform(g_[key], p_[key], count, pre_old, diag, loc_old.momentum.quantized, loc_old.diagonal_momentum.quantized)
    P.equal(f'{tag}|{key} update (uses the previous refresh\'s preconditioners)', upd[key], out['update'], assume, split)
    P.equal(f'{tag}|{key} momentum', loc_new.momentum.quantized, out['mom'], assume, split)
    P.equal(f'{tag}|{key} diagonal_momentum', loc_new.diagonal_momentum.quantized, out['dmom'], assume, split)
    if np.asarray(loc_new.diagonal_statistics.quantized, dtype=object).size:
      P.equal(f'{tag}|{key} diagonal_statistics', loc_new.diagonal_statistics.quantized, out['diag'], assume, split)
    slot += ref.nstat
  P.reach(f'{tag}|twin: preconditioned step reachable', assume, [count >= c['start']])
  res, viol = [], []
  confirmed = None
  for r in P.results:
    if r['status'] in ('sat', 'unknown') and r.get('kind', 'core') == 'core':
      if confirmed is None:
        confirmed = False
        for seed in (0, 1):
          what = sharded_history(task, seed)
          if what:
            path = write_replay(PID, dict(property=PID, mode='sharded', task=task, seed=seed, observed=what))
            confirmed = dict(what=what, replay=path)
            break
      if confirmed:
        r['status'] = 'violation'
        viol.append(dict(key=f"C02:sharded:{r['name'].split('|')[-1].split(' ')[1] if ' ' in r['name'].split('|')[-1] else 'leaf'}", what=confirmed['what'], replay=confirmed['replay']))
      elif r['status'] == 'sat':
        r['status'] = 'spurious'
        r['note'] = 'candidate counterexample did not reproduce on the real code'
    res.append(dict(r))
  return dict(results=res, violations=viol, errors=[], configs=1,
              samples=[dict(sharded=True, config=task['cfg'], shapes=task['shapes'], D=D, jaxpr_eqns=tr.n_eqns)],
              extra=dict(jaxpr_eqns_total=tr.n_eqns, eval_s=round(time.time() - t0, 2)))


def sharded_history(task, seed=0, T=8):
  """real sharded optimizer (one-device mesh, jit) vs the numeric reference with previous-refresh preconditioners"""
  c = dsh.full_cfg(task['cfg'])
  shapes = [tuple(x) for x in task['shapes']]
  D = task['D']
  dsh.uninstall_root_stub()
  try:
    rng = np.random.RandomState(seed)
    params = {f'p{i}': jnp.asarray(rng.randn(*sh), jnp.float32) for i, sh in enumerate(shapes)}
    try:
      tr, state, opt, mesh = dsh.trace_sharded(c, params, D)
    except Exception as ex:
      return f'sharded optimizer raises {type(ex).__name__}: {str(ex)[:200]}'
    refs = {k: DSRef(c, tuple(v.shape), NumI()) for k, v in params.items()}
    st = {}
    slot = 0
    for key in sorted(params):
      ref = refs[key]
      loc = state.stats.local_stats[key]
      sizes = list(loc.sizes)
      st[key] = dict(slot=slot, sizes=sizes,
                     stats=[tofl(np.asarray(state.stats.global_stats.statistics[slot + k])[:sizes[k], :sizes[k]]) for k in range(ref.nstat)],
                     pre=[tofl(np.asarray(state.stats.global_stats.preconditioners[slot + k])[:sizes[k], :sizes[k]]) for k in range(ref.nstat)],
                     diag=tofl(loc.diagonal_statistics.quantized) if np.asarray(loc.diagonal_statistics.quantized).size else arr(tuple(params[key].shape), 0.0),
                     mom=tofl(loc.momentum.quantized), dmom=tofl(loc.diagonal_momentum.quantized), pf=tofl(np.asarray(params[key], np.float32)))
      slot += ref.nstat
    with mesh:
      upd_fn = jax.jit(opt.update)
      for t in range(T):
        g = {k: jnp.asarray(rng.randn(*v.shape), jnp.float32) for k, v in params.items()}
        u, state = upd_fn(g, state, params)
        for key in sorted(params):
          ref, s_ = refs[key], st[key]
          gf = tofl(np.asarray(g[key], np.float32))
          out = ref.transform(gf, s_['pf'], t, s_['pre'], s_['diag'], s_['mom'], s_['dmom'])
          s_['diag'], s_['mom'], s_['dmom'] = out['diag'], out['mom'], out['dmom']
          code = np.asarray(u[key], np.float64)
          want = np.array([float(x) for x in out['update'].reshape(-1)]).reshape(code.shape)
          scale = max(np.abs(want).max(), 1e-6)
          if not np.all(np.isfinite(code)) or np.abs(code - want).max() > 2e-2 * scale:
            return (f'step {t}: sharded update of {key} differs from the documented update with previous-refresh preconditioners: '
                    f'{code.reshape(-1)[:4]} vs {want.reshape(-1)[:4]}')
          s_['stats'] = ref.statistics(gf, s_['stats'], t)
          if ref.step_on(t, c['q']):
            errs = np.asarray(state.stats.local_stats[key].training_metrics.inverse_pth_root_errors).reshape(-1)
            newp = []
            for k in range(ref.nstat):
              if errs[k] < c['thr']:
                newp.append(tofl(num_root(s_['stats'][k], ref.exponent, c['matrix_epsilon'])))
              else:
                return None
            s_['pre'] = newp
          for k in range(ref.nstat):
            got = np.asarray(state.stats.global_stats.preconditioners[s_['slot'] + k], np.float64)[:s_['sizes'][k], :s_['sizes'][k]]
            wantp = np.array([[float(x) for x in row] for row in s_['pre'][k]])
            if np.abs(got - wantp).max() > 2e-2 * max(np.abs(wantp).max(), 1e-6):
              return f'step {t}: stored global preconditioner {s_["slot"] + k} differs from the documented root / previous value'
    return None
  finally:
    dsh.install_root_stub()


def tagof(t):
  c = t['cfg']
  keys = ['graft', 'beta1', 'beta2', 'nesterov', 'moving_average', 'weight_decay', 'decoupled_wd', 'decoupled_lr',
          'lr_schedule', 'start', 's', 'q', 'exponent_override', 'ptype', 'merge', 'block_size', 'skip_rank_lt', 'skip_dim_gt']
  return 'x'.join(map(str, t['shape'])) + '|' + ','.join(f'{k}={c[k]}' for k in keys if k in c)


def gen_inputs(names):
  """generator for the differential run: PSD statistics, symmetric preconditioners"""
  def gen(rng, x, t, _state={'k': 0}):
    x = np.asarray(x)
    k = _state['k']
    _state['k'] += 1
    name = names[k % len(names)]
    if 'count' in name:
      return np.asarray(rng.randint(0, 7), dtype=x.dtype)
    if not np.issubdtype(x.dtype, np.floating):
      return rng.randint(0, 5, size=x.shape).astype(x.dtype)
    if '.statistics' in name and x.ndim == 2:
      a = rng.randint(-4, 5, size=x.shape) / 4.0
      return (a @ a.T + np.eye(x.shape[0])).astype(x.dtype)
    if '.preconditioners' in name and x.ndim == 2:
      a = rng.randint(-4, 5, size=x.shape) / 4.0
      return ((a + a.T) / 2).astype(x.dtype)
    if 'diagonal_statistics' in name:
      return (rng.randint(0, 9, size=x.shape) / 4.0).astype(x.dtype)
    if 'training_metrics' in name:
      return (rng.randint(0, 9, size=x.shape) / 8.0).astype(x.dtype)
    return (rng.randint(-8, 9, size=x.shape) / 4.0).astype(x.dtype)
  return gen


def code_outputs(upd, new, key='p0'):
  st = new.stats[key]
  out = dict(update=upd[key], count=new.count, statistics=list(st.statistics), preconditioners=list(st.preconditioners),
             mom=st.momentum.quantized, dmom=st.diagonal_momentum.quantized, diag=st.diagonal_statistics.quantized)
  tm = st.training_metrics
  out['errors'] = getattr(tm, 'inverse_pth_root_errors', None)
  return out


def reference(c, shape, I, g, p, count, st):
  ref = DSRef(c, shape, I)
  stats = ref.statistics(g, list(st.statistics), count)
  old_err = st.training_metrics.inverse_pth_root_errors if hasattr(st.training_metrics, 'inverse_pth_root_errors') else None
  pre, errs, roots = ref.preconditioners(stats, list(st.preconditioners), old_err, count)
  diag = st.diagonal_statistics.quantized
  if isinstance(diag, list) or np.asarray(diag, dtype=object).size == 0 and np.prod(shape) != 0:
    diag = arr(shape, Fraction(0))
  out = ref.transform(g, p, count, pre, diag, st.momentum.quantized, st.diagonal_momentum.quantized)
  out.update(statistics=stats, preconditioners=pre, errors=errs, roots=roots, ref=ref)
  return out


def work(task):
  if task.get('sharded'):
    return sharded_work(task)
  t0 = time.time()
  c = dsh.full_cfg(task['cfg'])
  shape = tuple(task['shape'])
  tag = tagof(dict(cfg=c, shape=shape))
  dsh.install_root_stub()
  opt = dsh.make_opt(c)
  params = {'p0': jnp.zeros(shape, jnp.float32)}
  errors = []
  try:
    tr, state0 = dsh.trace_update(opt, params)
  except dsh.RealCodeError as ex:
    what = dsh.concrete_crash(c, [shape])
    if what is None:
      return dict(results=[], violations=[], errors=[f'{tag}: trace failed but concrete run did not: {ex}'], configs=1)
    path = write_replay(PID, dict(property=PID, mode='crash', config=c, shape=list(shape), observed=what))
    return dict(results=[dict(name=f'{tag}|real code raises on an accepted configuration', status='violation', kind='core',
                              queries=0, note=what)],
                violations=[dict(key=f'C02:crash:{what.split(":")[0]}:ptype={c["ptype"]}', what=f'update raises {what} for shape {shape}', replay=path)],
                errors=[], configs=1)
  bad = differential(tr, n=2, seed=3, gen=gen_inputs(tr.names), interp_factory=lambda: ConcreteInterp(Ctx()),
                     rtol=2e-3, atol=1e-4)
  if bad:
    errors.append(f'{tag}: differential mismatch evaluator vs real code: leaf {bad[0][1]} {str(bad[0][2])[:200]} vs {str(bad[0][3])[:200]}')
  I = Interp(Ctx())
  leaves = tr.sym_inputs()
  g_, st_, p_ = tr.unflatten_in(leaves)
  upd, new = tr.run(I, leaves)
  code = code_outputs(upd, new)
  count = st_.count.item()
  ref = reference(c, shape, I, g_['p0'], p_['p0'], count, st_.stats['p0'])
  assume = [count >= 0, count <= 2 ** 31 - 2]
  split = [count >= c['start']]
  if c['s'] > 1:
    split.append(count % c['s'] == 0)
  if c['q'] > 1:
    split.append(count % c['q'] == 0)
  thr = R.rlit(f32(c['thr']))
  for (_, err) in ref['roots']:
    split.append(err >= thr)
  P = Prover(timeout_s=30, first_s=1.0)
  P.equal(f'{tag}|count', code['count'], np.array(R.s_add(count, 1), dtype=object), assume)
  nst = ref['ref'].nstat
  if len(code['statistics']) != nst or len(code['preconditioners']) != nst:
    errors.append(f'{tag}: number of statistics {len(code["statistics"])} != reference {nst}')
  for k in range(min(nst, len(code['statistics']))):
    P.equal(f'{tag}|statistics[{k}]', code['statistics'][k], ref['statistics'][k], assume, split)
    P.equal(f'{tag}|preconditioners[{k}]', code['preconditioners'][k], ref['preconditioners'][k], assume, split)
  if nst and code['errors'] is not None and c['metrics']:
    P.equal(f'{tag}|inverse_pth_root_errors', code['errors'], np.array(ref['errors'], dtype=object), assume, split)
  if np.asarray(code['diag'], dtype=object).size:
    P.equal(f'{tag}|diagonal_statistics', code['diag'], ref['diag'], assume, split)
  P.equal(f'{tag}|momentum', code['mom'], ref['mom'], assume, split)
  P.equal(f'{tag}|diagonal_momentum', code['dmom'], ref['dmom'], assume, split)
  P.equal(f'{tag}|update', code['update'], ref['update'], assume, split)
  # reachability twins: both sides of every schedule gate are reachable
  P.reach(f'{tag}|twin: preconditioned step reachable', assume, [count >= c['start']])
  if c['start'] > 0:
    P.reach(f'{tag}|twin: warm-up step reachable', assume, [count < c['start']])
  res, viol = [], []
  memo = {}
  for r in P.results:
    if r['status'] in ('sat', 'unknown') and r.get('kind', 'core') == 'core':
      if r['status'] == 'unknown':       # no model: one generic replay per task
        if 'unk' not in memo:
          memo['unk'] = confirm(task, c, shape, r, tr, leaves)
        v = memo['unk']
      else:
        v = confirm(task, c, shape, r, tr, leaves)
      if v is not None:
        r['status'] = 'violation'
        viol.append(v)
      elif r['status'] == 'sat':
        r['status'] = 'spurious'
        r['note'] = 'candidate counterexample did not reproduce on the real code'
    res.append(dict(r))
  return dict(results=res, violations=viol, errors=errors, configs=1,
              samples=[dict(config=task['cfg'], shape=list(shape), jaxpr_eqns=tr.n_eqns,
                            leaves_compared=[r['name'].split('|')[-1] for r in res][:12])],
              extra=dict(jaxpr_eqns_total=tr.n_eqns, eval_s=round(time.time() - t0, 2),
                         stub_applications=len(I.ctx.stub_log)))


# ----------------------------------------------------------------------- replay
class NumI:
  """numeric stand-in for the evaluator inside the reference model"""
  def sqrt(self, a):
    return math.sqrt(max(float(a), 0.0))


def num_root(S, p, eps, relative=True):
  S = np.array([[float(x) for x in row] for row in S], dtype=np.float64)
  S = (S + S.T) / 2
  w, V = np.linalg.eigh(S)
  ridge = eps * max(w.max(), 1e-16) if relative else eps
  w = np.maximum(w + ridge, 1e-30)
  X = (V * w ** (-1.0 / p)) @ V.T
  return X


def tofl(a):
  a = np.asarray(a)
  out = np.empty(a.shape, dtype=object)
  for idx in np.ndindex(a.shape):
    out[idx] = float(a[idx])
  return out


def run_history(c, shape, grads, params):
  """real optimizer (unstubbed) vs numeric reference over a gradient history from init.
  Returns description of the first mismatch or None."""
  from . import ds_ref
  dsh.uninstall_root_stub()
  try:
    opt = dsh.make_opt(c)
    p = {'p0': jnp.asarray(params, jnp.float32)}
    state = opt.init(p)
    ref = DSRef(c, shape, NumI())
    st = state.stats['p0']
    stats = [tofl(s) for s in st.statistics]
    pre = [tofl(s) for s in st.preconditioners]
    diag = tofl(st.diagonal_statistics.quantized) if np.asarray(st.diagonal_statistics.quantized).size else arr(shape, 0.0)
    mom = tofl(st.momentum.quantized)
    dmom = tofl(st.diagonal_momentum.quantized)
    pf = tofl(np.asarray(params, np.float32))
    for t, g in enumerate(grads):
      g32 = np.asarray(g, np.float32).reshape(shape)
      upd, state = opt.update({'p0': jnp.asarray(g32)}, state, p)
      gf = tofl(g32)
      stats = ref.statistics(gf, stats, t)
      on = ref.step_on(t, c['q'])
      newpre = []
      st = state.stats['p0']
      for k in range(ref.nstat):
        code_err = float(st.training_metrics.inverse_pth_root_errors[k]) if c['metrics'] else 0.0
        if on and code_err < c['thr']:
          newpre.append(tofl(num_root(stats[k], ref.exponent, c['matrix_epsilon'])))
        elif on:
          return None  # a root failed numerically: outside what this replay can judge
        else:
          newpre.append(pre[k])
      pre = newpre
      out = ref.transform(gf, pf, t, pre, diag, mom, dmom)
      diag, mom, dmom = out['diag'], out['mom'], out['dmom']
      def cmpf(name, code, refv):
        code = np.asarray(code, np.float64)
        refv = np.array([float(x) for x in np.asarray(refv, dtype=object).reshape(-1)]).reshape(code.shape)
        scale = max(np.abs(refv).max() if refv.size else 0.0, 1e-6)
        if not np.all(np.isfinite(code)) or np.abs(code - refv).max() > 2e-2 * scale:
          return f'step {t}: {name} differs from the documented update: code {code.reshape(-1)[:6]} vs reference {refv.reshape(-1)[:6]}'
        return None
      for k in range(ref.nstat):
        m = cmpf(f'statistics[{k}]', st.statistics[k], stats[k]) or cmpf(f'preconditioners[{k}]', st.preconditioners[k], pre[k])
        if m:
          return m
      m = (cmpf('update', upd['p0'], out['update']) or cmpf('momentum', st.momentum.quantized, mom) or
           cmpf('diagonal_momentum', st.diagonal_momentum.quantized, dmom))
      if m:
        return m
      if int(state.count) != t + 1:
        return f'step {t}: count {int(state.count)} != {t + 1}'
    return None
  finally:
    dsh.install_root_stub()


def histories(shape, seed, model_g=None, T=8):
  rng = np.random.RandomState(seed)
  hs = []
  for k in range(3):
    h = [np.asarray(rng.randn(*shape)) * (1.0 + k) for _ in range(T)]
    if model_g is not None and k == 0 and np.all(np.isfinite(model_g)) and np.abs(model_g).max() < 1e6:
      h[-1] = model_g
    hs.append(h)
  return hs


def confirm(task, c, shape, r, tr, leaves):
  m = r.get('model')
  mg = None
  if m is not None:
    g_, _, _ = tr.unflatten_in(leaves)
    mg = np.array([float(model_value(m, x)) for x in g_['p0'].reshape(-1)]).reshape(shape)
  prm = np.asarray(np.random.RandomState(7).randn(*shape))
  for h in histories(shape, 11, mg):
    what = run_history(c, shape, h, prm)
    if what:
      path = write_replay(PID, dict(property=PID, config=c, shape=list(shape), params=prm.tolist(),
                                    history=[np.asarray(x).tolist() for x in h], obligation=r['name'], observed=what))
      leaf = r['name'].split('|')[-1]
      return dict(key=f'C02:{leaf}', what=what, replay=path)
  return None


def replay(path):
  d = json.load(open(path))
  if d.get('mode') == 'sharded':
    what = sharded_history(d['task'], d['seed'])
    if what:
      print(f'VIOLATION property={PID} replay={path}')
      print('  ' + what)
      return 1
    print('replay: sharded update matches')
    return 0
  if d.get('mode') == 'crash':
    what = dsh.concrete_crash(d['config'], [tuple(d['shape'])])
    if what:
      print(f'VIOLATION property={PID} replay={path}')
      print('  ' + what)
      return 1
    print('replay: no exception')
    return 0
  what = run_history(d['config'], tuple(d['shape']), [np.asarray(x) for x in d['history']], np.asarray(d['params']))
  if what:
    print(f'VIOLATION property={PID} replay={path}')
    print('  ' + what)
    return 1
  print('replay: update matches the documented math on the stored history')
  return 0


def run(rep):
  rep.explanation = (
      'Bounded SMT verification of the real distributed_shampoo(...).update jaxpr in exact real arithmetic: for each '
      'configuration x parameter shape, every output leaf (update, count, statistics, preconditioners, root-error metric, '
      'grafting accumulator, both momenta) is proved equal to an independent reference model of the documented math for ALL '
      'states, gradients, parameters and step counters 0..2^31-2 (one step from an arbitrary state = histories of any length). '
      'Inverse roots are uninterpreted functions ROOT_k(S[:k,:k], p), ERR_k(...) shared by code and reference; z3 decides each '
      'leaf after lazy case-splitting on the schedule/acceptance gates.  Sharded variant: the same, with the update proved to use the '
      'preconditioners stored before the step (previous refresh) and the global statistics / preconditioners zero-padded.')
  for q, f in [('distributed_shampoo.update_fn', 1), ('_compute_stats', 1), ('_compute_preconditioners', 1),
               ('_pmap_compute_preconditioners', 1), ('_transform_grad', 1), ('Preconditioner.*', 1),
               ('BlockPartitioner.*', 1), ('gram_weighted_update', 1), ('efficient_cond', 1), ('merge_small_dims', 1),
               ('batch/unbatch', 1), ('pad_square_matrix', 1)]:
    rep.encode('precondition.distributed_shampoo.' + q, 'precondition/distributed_shampoo.py')
  ts = tasks(rep.tier, rep.seed if rep.tier == 'thorough' else 0) + sharded_tasks(rep.tier)
  rep.bounds = dict(configurations=len(ts), shapes=sorted({str(tuple(t['shape'])) for t in ts if 'shape' in t}),
                    step_counter='symbolic, 0..2^31-2', history='one step from an arbitrary state',
                    options='graft type x beta1 x beta2 x nesterov x moving average x weight decay x decoupling x lr '
                            'decoupling/schedule x start step x (s,q) in {1,2,3}^2 x exponent override x preconditioner '
                            'type x merging x block size x skip thresholds')
  rep.stubs = ['matrix_inverse_pth_root -> uninterpreted ROOT_k/ERR_k of the unpadded block and exponent '
               '(assumes padding invariance of the root routine; its body is C01)']
  rep.assumptions = ['exact real arithmetic (float rounding not modelled)', 'root routine is padding invariant',
                     'dyadic hyper-parameters so that float32 constants are exact',
                     'NaN/Inf not represented (acceptance gate on NaN is C03)']
  rep.outside = ['float rounding', 'body of the inverse root (C01)', 'quantized state values (C11)',
                 'sharded variant on a real multi-device mesh (traced under a one-device mesh)']
  run_tasks('vp.props.c02', 'work', ts, report=rep)
