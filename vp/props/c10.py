"""C10 — low-rank packed preconditioner agrees with the dense matrix it denotes.

P1 pack/unpack are mutually inverse (index terms, symbolic entries);
P2 the compressed application path of the real Preconditioner equals contraction with
   the dense matrix c(I - VV') + V diag(e) V' (polynomial identity, arbitrary V);
P3 the packed root computed by the real _low_rank_root (eigh stubbed) has the fields
   the documentation describes.
"""
from fractions import Fraction
import itertools
import json
import time
import numpy as np
import z3
import jax
import jax.numpy as jnp

from ..symjax import Interp, Ctx, toobj, sym_like
from ..symjax import real as R
from ..harness import f32
from ..solve import Prover, zl
from ..report import run_tasks, write_replay
from .ds_ref import arr, emap, vsum, contract
from .c06 import eval_fn

PID = 'C10'


def tasks(tier):
  out = [dict(kind='P0', d=0, r=r) for r in ((1, -1, 2) if tier == 'quick' else (1, -1, 2, -2, 3, -3, 5))]
  dmax = 6 if tier == 'quick' else 7
  for r in ((1, -1, 2) if tier == 'quick' else (1, -1, 2, -2, 3, -3)):
    for d in range(abs(r) + 3, dmax + 1):
      out.append(dict(kind='P1', d=d, r=r))
  gshapes = [('d',), ('d', 2), (2, 'd'), (2, 'd', 2)]
  for r in ((1, -1) if tier == 'quick' else (1, -1, 2, -2)):
    for gs in gshapes:
      d = abs(r) + 3
      out.append(dict(kind='P2', d=d, r=r, gshape=[d if x == 'd' else x for x in gs]))
  if tier == 'thorough':
    out.append(dict(kind='P2', d=5, r=1, gshape=[5, 5]))
  for r in ((1, -1) if tier == 'quick' else (1, -1, 2, -2)):
    d = abs(r) + 3
    for pad in ((0, 1) if tier == 'quick' else (0, 1, 2)):
      for p in ((2, 4) if tier == 'quick' else (2, 3, 4)):
        if tier == 'quick' and (pad + p // 2 + (r > 0)) % 2:
          continue
        out.append(dict(kind='P3', d=d + pad, r=r, pad=pad, p=p))
    out.append(dict(kind='P3', d=d, r=r, pad=d, p=2))   # all-padding matrix
  return out


def dense_of(V, e, c):
  d, r = V.shape
  D = arr((d, d))
  for i in range(d):
    for j in range(d):
      vv = vsum(R.s_mul(V[i, k], V[j, k]) for k in range(r))
      ve = vsum(R.s_mul(R.s_mul(V[i, k], e[k]), V[j, k]) for k in range(r))
      D[i, j] = R.s_add(R.s_mul(c, R.s_sub(Fraction(int(i == j)), vv)), ve)
  return D


def work(t):
  from ..symjax import Unsupported
  rp = {k: t[k] for k in ('kind', 'd', 'r', 'gshape', 'pad', 'p') if k in t}
  try:
    return work_(t)
  except Unsupported:
    raise
  except Exception as ex:
    what = concrete(rp)
    if not what:
      raise
    path = write_replay(PID, dict(property=PID, replay=rp, observed=what))
    return dict(results=[dict(name=f"{t['kind']}|real code raises while traced: {type(ex).__name__}", status='violation', kind='core', queries=0)],
                violations=[dict(key=f"C10:{t['kind']}:crash", what=what, replay=path)], errors=[], configs=1)


def p0_work(t):
  """_should_compress and _precond_dim agree for EVERY dimension (symbolic d; forking proxy execution of both functions)"""
  from precondition import distributed_shampoo as ds
  from ..pysym import engine as PE
  from ..pysym.engine import SymInt, term
  r = t['r']
  d = SymInt(z3.Int('d'))
  E = PE.E
  E.__init__()
  E.base = [term(d) >= 1, term(d) <= 4096]
  paths, bad = 0, None
  for pc, (kind, res) in E.explore(lambda: (ds._should_compress(r, d), ds._precond_dim(r, d))):
    paths += 1
    if kind == 'exc':
      bad = f'raises {res}'
      continue
    sc, pd = res
    sc_t = term(sc) if not isinstance(sc, bool) else z3.BoolVal(sc)
    rr, m = E.valid(pc, sc_t == (term(pd) != term(d)))
    if rr != 'unsat':
      dv = m.eval(term(d), model_completion=True).as_long() if m is not None else None
      bad = f'd={dv}'
  name = f'P0|r={r}|_should_compress(r, d) <=> _precond_dim(r, d) != d for every d in 1..4096 ({paths} paths)'
  viol = []
  status = 'unsat'
  if bad:
    what = concrete(dict(kind='P0', d=0, r=r))
    if what:
      path = write_replay(PID, dict(property=PID, replay=dict(kind='P0', d=0, r=r), observed=what))
      viol.append(dict(key='C10:P0:compress-consistency', what=what, replay=path))
      status = 'violation'
    else:
      status = 'spurious'
  return dict(results=[dict(name=name, status=status, kind='core', queries=E.queries, solver_s=round(E.solver_s, 3), cases=paths)],
              violations=viol, errors=[], configs=1, samples=[dict(task=t)], extra={})


def work_(t):
  if t['kind'] == 'P0':
    return p0_work(t)
  from precondition import distributed_shampoo as ds
  t0_ = time.time()
  kind, d, r = t['kind'], t['d'], t['r']
  ar = abs(r)
  tag = f"{kind}|d={d}|r={r}" + ''.join(f'|{k}={t[k]}' for k in ('gshape', 'pad', 'p') if k in t)
  P = Prover(timeout_s=30, first_s=2.0)
  rp = None
  if kind == 'P1':
    V = sym_like('V', np.zeros((d, ar), np.float32))
    l = sym_like('l', np.zeros((ar,), np.float32))
    e = sym_like('e', np.zeros((ar,), np.float32))
    c = sym_like('c', np.zeros((), np.float32))
    tl = sym_like('t', np.zeros((), np.float32))
    z = np.array(z3.Bool('z'), dtype=object)
    packed = eval_fn(lambda V_, l_, e_, c_, t_, z_: ds._fd_low_rank_pack(V_, l_, e_, c_, t_, z_.astype(bool), r), V, l, e, c, tl,
                     np.array(R.s_if(z.item(), Fraction(1), Fraction(0)), dtype=object))
    out = eval_fn(lambda pk: ds._fd_low_rank_unpack(pk, r), packed)
    names = ['eigvecs', 'eigvals', 'inverted eigvals', 'const', 'tail']
    for nm, got, want in zip(names, out[:5], [V, l, e, c, tl]):
      P.equal(f'{tag}|fd unpack(pack(.)) returns {nm}', got, want, force=True)
    hz = toobj(out[5]).item()
    P.prove(f'{tag}|fd unpack(pack(.)) returns the has-zeros flag', hz == z.item() if R.is_z3(hz) else z3.BoolVal(False), [])
    # all stored slots distinct: packed entries that are variables occur exactly once
    ids = [x.get_id() for x in toobj(packed).reshape(-1) if R.is_z3(x)]
    nvars = V.size + 2 * ar + 2 + 1
    P.results.append(dict(name=f'{tag}|packed layout has no overlapping slots ({nvars} fields in {d}x{ar + 2})', kind='core', queries=0,
                          status='unsat' if len(set(ids)) == len(ids) == nvars else 'sat', note=f'{len(set(ids))} distinct of {len(ids)}'))
    pk2 = eval_fn(lambda V_, e_, c_: ds._low_rank_pack(V_, e_, c_, r), V, e, c)
    o2 = eval_fn(lambda pk: ds._low_rank_unpack(pk, r), pk2)
    for nm, got, want in zip(['eigvecs', 'inverted eigvals', 'const'], o2[:3], [V, e, c]):
      P.equal(f'{tag}|unpack(pack(.)) returns {nm}', got, want, force=True)
    P.prove(f'{tag}|low-rank pack clears the has-zeros flag', z3.BoolVal(toobj(o2[3]).item() is False), [])
    rp = dict(kind='P1', d=d, r=r)
  elif kind == 'P2':
    gshape = tuple(t['gshape'])
    param = jnp.zeros(gshape, jnp.float32)
    pc = ds.Preconditioner(param, 64, 4096, False, ds.PreconditionerType.ALL, r)
    shapes = pc.shapes_for_preconditioners()
    pre_syms = [sym_like(f'P{k}', np.zeros(tuple(s), np.float32)) for k, s in enumerate(shapes)]
    g = sym_like('g', np.zeros(gshape, np.float32))
    out = eval_fn(lambda gg, *ps: pc.preconditioned_grad(gg, list(ps)), g, *pre_syms)
    # reference: contraction with the dense matrix each (packed or full) preconditioner denotes
    want = g
    any_flag = []
    for ax, (s, Psym) in enumerate(zip(shapes, pre_syms)):
      if s[0] != s[1]:
        V = Psym[:, :ar]
        e = Psym[:ar, -2]
        c = Psym[0, -1]
        flag = R.s_ne(Psym[-1, -2], 0)
        D = dense_of(V, e, c)
        new = contract(want, D, ax)
        want = emap(lambda o, n: R.s_if(flag, o, n), want, new)
        any_flag.append(flag)
      else:
        want = contract(want, Psym, ax)
    P.equal(f'{tag}|compressed application = contraction with c(I - VV\') + V diag(e) V\' (gradient unchanged when flagged)',
            out, want, split=[f for f in any_flag if R.is_z3(f)], poly=True)
    P.reach(f'{tag}|twin: flag clear and non-zero gradient possible', [], [z3.Not(f) for f in any_flag if R.is_z3(f)] + [zl(g.reshape(-1)[0]) != 0])
    rp = dict(kind='P2', d=d, r=r, gshape=list(gshape))
  elif kind == 'P3':
    pad, p = t['pad'], t['p']
    k = d - pad
    EPS = 2.0 ** -10
    A = sym_like('A', np.zeros((d, d), np.float32))
    for i in range(d):
      for j in range(i):
        A[i, j] = A[j, i]
    ctx = Ctx()
    I = Interp(ctx)
    fn = lambda m: ds._low_rank_root(m, p, r, ridge_epsilon=EPS, relative_matrix_epsilon=False, padding_start=k)
    jp, out_shape = jax.make_jaxpr(fn, return_shape=True)(jnp.zeros((d, d), jnp.float32))
    outs = I.eval(jp.jaxpr, jp.consts, A)
    val_, metrics = jax.tree_util.tree_unflatten(jax.tree_util.tree_structure(out_shape), outs)
    val_ = toobj(val_)
    if k == 0:
      P.equal(f'{tag}|all-padding input gives an all-zero packed preconditioner', val_, arr((d, ar + 2), Fraction(0)), force=True)
    else:
      recs = [rc for rc in ctx.decomps if rc['kind'] == 'eigh']
      P.results.append(dict(name=f'{tag}|one eigendecomposition', kind='core', queries=0, status='unsat' if len(recs) == 1 else 'sat'))
      rec = recs[0]
      ridge = R.s_mul(f32(EPS), R.s_max(Fraction(1), f32(1e-6)))
      reg = arr((d, d))
      for i in range(d):
        for j in range(d):
          inside = i < k and j < k
          reg[i, j] = R.s_add(A[i, j] if inside else Fraction(0), ridge if (i == j and i < k) else Fraction(0))
      P.equal(f'{tag}|decomposed matrix = masked statistics + ridge on the unpadded diagonal', rec['a'], reg)
      w, U = rec['w'], rec['V']
      alpha = f32(-1.0 / p)
      inv = []
      for i in range(d):
        ei = w[i] if i >= d - k else Fraction(0)     # padding eigenvalues (the first d-k, ascending) are zeroed
        inv.append(R.s_if(R.s_eq(ei, 0), Fraction(0), I.pow(R.s_max(ei, ridge), alpha)))
      if r > 0:
        order = list(range(d - 1, -1, -1))       # largest first
      else:
        order = [(i + (d - k)) % d for i in range(d)]   # smallest unpadded first
      keep = order[:ar]
      rest = order[ar:]
      const = R.s_div(vsum(inv[i] for i in rest), Fraction(k - ar) if k - ar > 0 else Fraction(1))
      V_ref = arr((d, ar))
      for j, idx in enumerate(keep):
        V_ref[:, j] = U[:, idx]
      e_ref = np.array([inv[i] for i in keep], dtype=object)
      split = [zl(w[i]) == 0 for i in range(d - k, d)] + [zl(w[i]) >= zl(ridge) for i in range(d - k, d)]
      P.equal(f'{tag}|kept eigenvectors are the {ar} {"largest" if r > 0 else "smallest unpadded"} eigen-directions', val_[:, :ar], V_ref, split=split)
      P.equal(f'{tag}|kept root values are max(e, ridge)^(-1/{p}) of those directions', val_[:ar, -2], e_ref, split=split)
      P.equal(f'{tag}|constant = mean of the remaining root values over the {k} unpadded dimensions', val_[0:1, -1], np.array([const], dtype=object), split=split)
      P.equal(f'{tag}|has-zeros flag clear', val_[-1:, -2], np.array([Fraction(0)], dtype=object))
    rp = dict(kind='P3', d=d, r=r, pad=pad, p=p)
  res, viol = [], []
  confirmed = None
  for rr in P.results:
    rr = dict(rr)
    if rr['status'] in ('sat', 'unknown') and rr.get('kind', 'core') == 'core':
      if confirmed is None:
        confirmed = concrete(rp) or False
      if confirmed:
        rr['status'] = 'violation'
        path = write_replay(PID, dict(property=PID, replay=rp, observed=confirmed))
        viol.append(dict(key=f"C10:{kind}:{rr['name'].split('|')[-1][:40]}", what=confirmed, replay=path))
      elif rr['status'] == 'sat':
        rr['status'] = 'spurious'
        rr['note'] = 'candidate counterexample did not reproduce on the real code'
    res.append(rr)
  return dict(results=res, violations=viol, errors=[], configs=1, samples=[dict(task=t)],
              extra=dict(eval_s=round(time.time() - t0_, 2)))


def concrete(rp, seeds=(0, 1, 2, 3, 4, 5)):
  """numeric replay on the real functions (float32)"""
  from precondition import distributed_shampoo as ds
  d, r = rp['d'], rp['r']
  ar = abs(r)
  for seed in seeds:
    rng = np.random.RandomState(seed)
    try:
      if rp['kind'] == 'P0':
        for dd in range(1, 40):
          if bool(ds._should_compress(r, dd)) != (ds._precond_dim(r, dd) != dd):
            return (f'_should_compress({r}, {dd}) = {bool(ds._should_compress(r, dd))} but _precond_dim({r}, {dd}) = {ds._precond_dim(r, dd)}: '
                    'root routine and stored layout disagree on whether the preconditioner is packed')
        return None
      if rp['kind'] == 'P1':
        V, l, e = rng.randn(d, ar), rng.rand(ar) + 1, rng.rand(ar) + 2
        c, tl = 3.5, 4.5
        for z in (False, True):
          pk = ds._fd_low_rank_pack(jnp.asarray(V, jnp.float32), jnp.asarray(l, jnp.float32), jnp.asarray(e, jnp.float32), c, tl, z, r)
          o = ds._fd_low_rank_unpack(pk, r)
          for nm, got, want in zip(['eigvecs', 'eigvals', 'inverted eigvals', 'const', 'tail', 'has_zeros'], o, [V, l, e, c, tl, z]):
            if not np.allclose(np.asarray(got, np.float64), np.asarray(want, np.float64), rtol=1e-6):
              return f'_fd_low_rank_unpack(_fd_low_rank_pack(...)) does not return {nm} for d={d}, rank={r}: {np.asarray(got).reshape(-1)[:4]} vs {np.asarray(want).reshape(-1)[:4]}'
        pk = ds._low_rank_pack(jnp.asarray(V, jnp.float32), jnp.asarray(e, jnp.float32), c, r)
        o = ds._low_rank_unpack(pk, r)
        for nm, got, want in zip(['eigvecs', 'inverted eigvals', 'const', 'has_zeros'], o, [V, e, c, False]):
          if not np.allclose(np.asarray(got, np.float64), np.asarray(want, np.float64), rtol=1e-6):
            return f'_low_rank_unpack(_low_rank_pack(...)) does not return {nm} for d={d}, rank={r}'
      elif rp['kind'] == 'P2':
        gshape = tuple(rp['gshape'])
        pc = ds.Preconditioner(jnp.zeros(gshape), 64, 4096, False, ds.PreconditionerType.ALL, r)
        shapes = pc.shapes_for_preconditioners()
        g = rng.randn(*gshape)
        pres, dense = [], []
        for s in shapes:
          if s[0] != s[1]:
            V, e, c = rng.randn(s[0], ar), rng.rand(ar) + 1, 0.5
            pres.append(ds._low_rank_pack(jnp.asarray(V, jnp.float32), jnp.asarray(e, jnp.float32), c, r))
            dense.append(c * (np.eye(s[0]) - V @ V.T) + (V * e) @ V.T)
          else:
            M = rng.randn(s[0], s[0])
            pres.append(jnp.asarray(M, jnp.float32))
            dense.append(M)
        out = np.asarray(pc.preconditioned_grad(jnp.asarray(g, jnp.float32), pres), np.float64)
        want = g
        for ax, D in enumerate(dense):
          want = np.moveaxis(np.tensordot(np.moveaxis(want, ax, 0), D, axes=[[0], [0]]), -1, ax) if False else \
              np.moveaxis(np.tensordot(D.T, np.moveaxis(want, ax, 0), axes=[[1], [0]]), 0, ax)
        if not np.allclose(out, want, rtol=1e-3, atol=1e-4):
          return f'compressed preconditioning of a {gshape} gradient (rank {r}) differs from the dense matrix: {out.reshape(-1)[:4]} vs {want.reshape(-1)[:4]}'
      else:
        pad, p = rp['pad'], rp['p']
        k = d - pad
        if k == 0:
          val, _ = ds._low_rank_root(jnp.zeros((d, d)), p, r, ridge_epsilon=2.0 ** -10, relative_matrix_epsilon=False, padding_start=0)
          if np.any(np.asarray(val) != 0):
            return 'all-padding input gives a non-zero packed preconditioner'
          continue
        G = rng.randn(k, k + 2)
        S = G @ G.T * np.diag(np.arange(1, k + 1.0))
        S = (S + S.T) / 2 + np.diag(np.arange(k) * 3.0)
        if seed >= 3:
          S = S * 0.01      # spectrum around and below 1: an unmasked identity padding block would then sit inside it
        A = np.zeros((d, d))
        A[:k, :k] = S
        # the padding region is whatever the caller put there: zeros (seed 0), the identity block of pad_square_matrix
        # (seed 1, what the optimizer passes) or arbitrary symmetric values (seed 2); the routine must mask it
        if seed % 3 == 1:
          A[k:, k:] = np.eye(d - k)
        elif seed % 3 == 2:
          Z = rng.randn(d, d)
          Z = (Z + Z.T) / 2
          Z[:k, :k] = 0
          A = A + Z
        eps = 2.0 ** -10
        val, _ = ds._low_rank_root(jnp.asarray(A, jnp.float32), p, r, ridge_epsilon=eps, relative_matrix_epsilon=False, padding_start=k)
        V, inv, c, hz = ds._low_rank_unpack(val, r)
        V, inv, c = np.asarray(V, np.float64), np.asarray(inv, np.float64), float(c)
        w, U = np.linalg.eigh(S + eps * np.eye(k))
        rootv = np.maximum(w, eps) ** (-1.0 / p)
        idx = np.argsort(w)[::-1][:ar] if r > 0 else np.argsort(w)[:ar]
        rest = [i for i in range(k) if i not in idx]
        want_c = rootv[rest].mean() if rest else 0.0
        if not np.allclose(np.sort(inv), np.sort(rootv[idx]), rtol=2e-2):
          return f'_low_rank_root d={d} pad={pad} rank={r} p={p}: kept root values {np.sort(inv)} vs {np.sort(rootv[idx])}'
        if abs(c - want_c) > 2e-2 * abs(want_c) + 1e-6:
          return f'_low_rank_root d={d} pad={pad} rank={r} p={p}: constant {c} vs mean of remaining root values {want_c}'
        dense = c * (np.eye(d) - V @ V.T) + (V * inv) @ V.T
        ref = np.zeros((d, d))
        ref[:k, :k] = c * (np.eye(k) - U[:, idx] @ U[:, idx].T) + (U[:, idx] * rootv[idx]) @ U[:, idx].T
        if not np.allclose(dense[:k, :k], ref[:k, :k], rtol=5e-2, atol=5e-3):
          return f'_low_rank_root d={d} pad={pad} rank={r} p={p}: denoted matrix differs from the documented one'
    except Exception as ex:
      return f'{rp} raises {type(ex).__name__}: {ex}'
  return None


def replay(path):
  d = json.load(open(path))
  what = concrete(d['replay'])
  if what:
    print(f'VIOLATION property={PID} replay={path}')
    print('  ' + what)
    return 1
  print('replay: packed representation consistent')
  return 0


def run(rep):
  rep.explanation = (
      'Bounded SMT verification (exact reals) on the jaxprs of the real functions: P1 _fd_low_rank_unpack/_low_rank_unpack after the '
      'corresponding pack return every field for ALL field values (index terms through the real scatter/slice primitives; no slot '
      'overlap), P2 Preconditioner.preconditioned_grad with packed preconditioners equals contraction with the dense matrix '
      'c(I - VV\') + V diag(e) V\' for ALL V, e, c and gradients of rank 1..3 on every axis (gradient unchanged when flagged), P3 the '
      'packed output of _low_rank_root (eigh stubbed, absolute ridge) has the documented fields: the |r| largest/smallest unpadded '
      'eigen-directions, max(e, ridge)^(-1/p), constant = mean of the remaining root values over the unpadded dimensions, incl. '
      'padding and the all-padding case.')
  rep.encode('precondition.distributed_shampoo._fd_low_rank_pack/_fd_low_rank_unpack/_low_rank_pack/_low_rank_unpack/_precond_dim/'
             '_low_rank_root/Preconditioner._precondition_block', 'precondition/distributed_shampoo.py')
  ts = tasks(rep.tier)
  rep.bounds = dict(tasks=len(ts), d='|r|+3 .. 6 (quick) / 7 (thorough)', r=sorted({t['r'] for t in ts}), p=sorted({t.get('p', 0) for t in ts if 'p' in t}),
                    padding='0..2 and all-padding', gradient_shapes=['(d,)', '(d,2)', '(2,d)', '(2,d,2)'])
  rep.stubs = ['eigh -> fresh ascending eigen-outputs (free contract)', 'pow(x, -1/p) uninterpreted']
  rep.assumptions = ['exact real arithmetic', 'padding eigenvalues are the first (ascending order) ones, as the code comments state',
                     'relative_matrix_epsilon=False (power iteration not encoded)']
  rep.outside = ['that the denoted matrix, raised to p, inverts A + ridge I on the kept directions (needs orthonormality; P4 declined)', 'float rounding']
  run_tasks('vp.props.c10', 'work', ts, report=rep)
