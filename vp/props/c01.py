"""C01 — inverse p-th root: exact-arithmetic skeleton of "accurate and honest error".

What an SMT solver can decide here is the algebra of the routines in exact arithmetic;
rounding slack proportional to the condition number, convergence within 100 iterations
and LOBPCG deflation are floating-point iterative linear algebra and are declined.

S0  every size traces (n = 1, 2, 3; Newton and eigh; with and without padding)
S1  one body evaluation of the coupled Newton loop preserves Inv: M = H^p D, H symmetric,
    H D = D H, padding rows/cols exactly zero, reported error = max|M - I_masked|
S1b the loop's initial carry satisfies Inv (needs pow(z,1/p)^p = z)
S2  the convergence blend is honest: the reported error bounds the residual of the matrix returned
S3  eigh variant: X symmetric; with a witnessed 2x2 decomposition X^p (A + dI) = I
S4  one power-iteration body step: Rayleigh quotient s <= every lambda with lambda I - A >= 0
S5  all-padding input returns exactly 0 with error 0
S6  LOBPCG-deflated variant (eigenpair routine and both loops cut: arbitrary outputs): the reported error is
    max|X^p (A + ridge I) - I| for the matrix X actually returned and the ORIGINAL (un-deflated) input A
"""
from fractions import Fraction
import json
import time
import numpy as np
import z3
import jax
import jax.numpy as jnp

from ..symjax import Interp, Ctx, toobj, sym_like
from ..symjax import real as R
from ..harness import f32
from ..solve import Prover, zl
from ..report import run_tasks, write_replay
from .ds_ref import arr, emap, vsum

PID = 'C01'
EPS = 2.0 ** -10


def tasks(tier):
  out = [dict(ob='S0')]
  for n, p in ((2, 1), (2, 2), (2, 3), (2, 4), (2, 5), (2, 6)) if tier == 'quick' else ((2, 1), (2, 2), (2, 3), (2, 4), (2, 5), (2, 6), (2, 7), (2, 8), (3, 2), (3, 1)):
    out.append(dict(ob='S1', n=n, p=p, pad=0))
  out.append(dict(ob='S1', n=3, p=2, pad=1))
  for n, p in ((2, 2), (2, 3), (2, 4)) if tier == 'quick' else ((2, 2), (2, 3), (2, 4), (2, 6), (3, 2)):
    out.append(dict(ob='S1b', n=n, p=p))
  out.append(dict(ob='S2', n=2, p=2))
  out.append(dict(ob='S3', n=2, p=2))
  if tier == 'thorough':
    out += [dict(ob='S3', n=2, p=4), dict(ob='S3sym', n=3, p=2)]
  out.append(dict(ob='S3sym', n=2, p=4))
  out.append(dict(ob='S3pad', n=3, p=2, pad=1))
  if tier == 'thorough':
    out.append(dict(ob='S3pad', n=3, p=4, pad=1))
  out.append(dict(ob='S4', n=2))
  out.append(dict(ob='S5'))
  out.append(dict(ob='S6', n=3, p=2, rel=False))
  if tier == 'thorough':
    out += [dict(ob='S6', n=3, p=2, rel=True), dict(ob='S6', n=4, p=2, rel=False), dict(ob='S6', n=3, p=3, rel=False)]
  return out


def mm(A, B):
  A, B = np.asarray(A, dtype=object), np.asarray(B, dtype=object)
  out = arr((A.shape[0], B.shape[1]))
  for i in range(A.shape[0]):
    for j in range(B.shape[1]):
      out[i, j] = vsum(R.s_mul(A[i, k], B[k, j]) for k in range(A.shape[1]))
  return out


def mpow(A, p):
  n = A.shape[0]
  out = arr((n, n))
  for i in range(n):
    for j in range(n):
      out[i, j] = Fraction(int(i == j))
  for _ in range(p):
    out = mm(out, A)
  return out


def sym_matrix(name, n, k=None):
  """symmetric n x n matrix of variables, zero outside the leading k x k block"""
  k = n if k is None else k
  A = arr((n, n), Fraction(0))
  for i in range(k):
    for j in range(i, k):
      A[i, j] = A[j, i] = z3.Real(f'{name}_{i}_{j}')
  return A


def sym_matrix_full(name, n):
  A = arr((n, n))
  for i in range(n):
    for j in range(n):
      A[i, j] = z3.Real(f'{name}_{i}_{j}')
  return A


class Captured(Exception):
  pass


def capture_loops(fn, example):
  """trace fn and collect every while-loop equation (nested) of its jaxpr"""
  jp = jax.make_jaxpr(fn)(*example)
  found = []

  def walk(j):
    for e in j.eqns:
      if e.primitive.name == 'while':
        found.append(e)
        walk(e.params['body_jaxpr'].jaxpr)
        walk(e.params['cond_jaxpr'].jaxpr)
      for k, v in e.params.items():
        for sub in (v if isinstance(v, (list, tuple)) else [v]):
          if hasattr(sub, 'jaxpr') and hasattr(sub.jaxpr, 'eqns') and e.primitive.name != 'while':
            walk(sub.jaxpr)
  walk(jp.jaxpr)
  return jp, found


def is_newton(e, n):
  outs = [tuple(v.aval.shape) for v in e.outvars]
  return len(outs) == 6 and outs[1] == (n, n) and outs[2] == (n, n) and outs[3] == (n, n)


def work(t):
  """an exception while the real code is traced / symbolically evaluated (e.g. a concrete 0 ** negative that the real code
  hides behind a `where`) is a harness error unless the model-free replay reproduces a property violation on the real routine"""
  try:
    return _work(t)
  except Exception as ex:
    if t.get('ob') in ('S0', 'S6'):
      raise
    what = None
    try:
      what = concrete(dict(t))
    except Exception:
      pass
    if not what:
      raise
    path = write_replay(PID, dict(property=PID, replay=dict(t), observed=what))
    name = '|'.join(f'{k}={v}' for k, v in t.items() if k != 'tier')
    return dict(results=[dict(name=f'{name}|symbolic evaluation stopped ({type(ex).__name__}: {str(ex)[:80]}); model-free replay on the real routine',
                              status='violation', kind='core', queries=0, note=what)],
                violations=[dict(key=f"C01:{t.get('ob')}:replay", what=what, replay=path)], errors=[], configs=1, samples=[dict(task=t)], extra={})


def _work(t):
  from precondition import distributed_shampoo as ds
  t0_ = time.time()
  ob = t['ob']
  P = Prover(timeout_s=60, first_s=5.0, fresh=True)
  viol = []
  rp = dict(t)
  if ob == 'S0':
    for n in (1, 2, 3):
      for eigh in (False, True):
        for pad in (None, n, max(n - 1, 0)):
          name = f'S0|n={n}|{"eigh" if eigh else "newton"}|padding_start={pad}: the routine traces and runs'
          try:
            fn = lambda m: ds.matrix_inverse_pth_root(m, 2, ridge_epsilon=EPS, padding_start=pad, eigh=eigh)
            jax.make_jaxpr(fn)(jnp.eye(n, dtype=jnp.float32))
            P.results.append(dict(name=name, status='unsat', kind='core', queries=0, note='traced'))
          except Exception as ex:
            what = concrete(dict(ob='S0', n=n, eigh=eigh, pad=pad))
            if what:
              path = write_replay(PID, dict(property=PID, replay=dict(ob='S0', n=n, eigh=eigh, pad=pad), observed=what))
              viol.append(dict(key=f'C01:S0:n={n}:{type(ex).__name__}', what=what, replay=path))
              P.results.append(dict(name=name, status='violation', kind='core', queries=0, note=what))
            else:
              P.results.append(dict(name=name, status='spurious', kind='core', queries=0, note=f'trace raised {ex} but concrete run did not'))
  elif ob in ('S1', 'S1b', 'S2'):
    n, p = t['n'], t['p']
    pad = t.get('pad', 0)
    k = n - pad
    tag = f'{ob}|n={n}|p={p}|pad={pad}'
    fn = lambda m: ds.matrix_inverse_pth_root(m, p, ridge_epsilon=EPS, relative_matrix_epsilon=False, padding_start=k)
    jp, loops = capture_loops(fn, [jnp.eye(n, dtype=jnp.float32)])
    newton = [e for e in loops if is_newton(e, n)]
    if len(newton) != 1:
      return dict(results=[], violations=[], errors=[f'{tag}: expected one Newton loop, found {len(newton)}'], configs=1)
    ctx = Ctx()
    I = Interp(ctx)
    cap = {}

    def hook(interp, e, cc, bc, carry):
      if is_newton(e, n) and 'carry' not in cap:
        cap.update(eqn=e, cc=cc, bc=bc, carry=carry)
        raise Captured()
      return None
    I.while_hook = hook
    A = sym_matrix('a', n, k)
    try:
      I.eval(jp.jaxpr, jp.consts, A)
    except Captured:
      pass
    if 'carry' not in cap:
      return dict(results=[], violations=[], errors=[f'{tag}: Newton loop was not reached'], configs=1)
    e = cap['eqn']
    bj = e.params['body_jaxpr']
    bc = cap['bc']
    Imask = arr((n, n), Fraction(0))
    for i in range(k):
      Imask[i, i] = Fraction(1)
    carry0 = cap['carry']
    # damped matrix D as the code built it for the first attempt
    ridge = R.s_mul(f32(EPS), R.s_max(Fraction(1), f32(1e-25)))
    D = emap(lambda a_, i_: R.s_add(a_, R.s_mul(ridge, i_)), A, Imask)
    if ob == 'S1b':
      i0, M0, H0, Hold0, err0, ratio0 = [toobj(x) for x in carry0]
      P.equal(f'{tag}|initial carry: M0 = H0^p D', M0, mm(mpow(H0, p), D))
      P.equal(f'{tag}|initial carry: H0 symmetric, commutes with D', np.concatenate([H0.reshape(-1), mm(H0, D).reshape(-1)]),
              np.concatenate([H0.T.reshape(-1), mm(D, H0).reshape(-1)]))
      mx = None
      for v in emap(lambda a_, b_: R.s_abs(R.s_sub(a_, b_)), M0, Imask).reshape(-1):
        mx = v if mx is None else R.s_max(mx, v)
      P.equal(f'{tag}|initial carry: error = max|M0 - I_masked|', np.array([err0.item()], dtype=object), np.array([mx], dtype=object))
      P.reach(f'{tag}|twin', [], [zl(A[0, 0]) > 0])
    else:
      # arbitrary carry satisfying Inv: D symmetric (arbitrary damped matrix), H = h0 I + h1 D (+ h2 D^2), M = H^p D
      Dm = sym_matrix('d', n, k)
      if p >= 6:
        # exponents 6..8: diagonal D only (the general case is a polynomial identity of degree ~p^2 that
        # neither the rewriter nor nlsat finishes); stated in the obligation name
        for i_ in range(n):
          for j_ in range(n):
            if i_ != j_:
              Dm[i_, j_] = Fraction(0)
        tag = tag + '|diagonal D'
      h = [z3.Real(f'h{j}') for j in range(3)]
      H = emap(lambda i_, d_: R.s_add(R.s_mul(h[0], i_), R.s_mul(h[1], d_)), Imask, Dm)
      if n >= 3:
        H = emap(lambda x_, y_: R.s_add(x_, R.s_mul(h[2], y_)), H, mm(Dm, Dm))
      M = mm(mpow(H, p), Dm)
      err = z3.Real('err')
      # the body's closed-over constants (alpha, identity) as the code built them
      carry = [np.asarray(3), M, H, H, np.array(err, dtype=object), np.array(Fraction(1), dtype=object)]
      out = Interp(Ctx()).eval(bj.jaxpr, bj.consts, *bc, *carry)
      i2, M2, H2, Hold2, e2, ratio2 = [toobj(x) for x in out]
      if ob == 'S1':
        P.equal(f'{tag}|body preserves M = H^p D', M2, mm(mpow(H2, p), Dm), timeout_s=120, poly=(p <= 4))
        P.equal(f'{tag}|body preserves symmetry of H and H D = D H', np.concatenate([H2.reshape(-1), mm(H2, Dm).reshape(-1)]),
                np.concatenate([H2.T.reshape(-1), mm(Dm, H2).reshape(-1)]), timeout_s=120, poly=(p <= 4))
        pads = [M2[i, j] for i in range(n) for j in range(n) if i >= k or j >= k] + [H2[i, j] for i in range(n) for j in range(n) if i >= k or j >= k]
        if pads:
          P.equal(f'{tag}|padding rows and columns of M and H stay exactly zero', np.array(pads, dtype=object), np.array([Fraction(0)] * len(pads), dtype=object))
        mx = None
        for v in emap(lambda a_, b_: R.s_abs(R.s_sub(a_, b_)), M2, Imask).reshape(-1):
          mx = v if mx is None else R.s_max(mx, v)
        P.equal(f'{tag}|reported error is max|M\' - I_masked| and the ratio is error\'/error', np.array([e2.item(), ratio2.item()], dtype=object),
                np.array([mx, R.s_div(mx, err)], dtype=object), [err > 0])
        P.equal(f'{tag}|old H is carried unchanged', Hold2, H)
        P.reach(f'{tag}|twin', [err > 0], [zl(Dm[0, 0]) > 0, h[1] != 0])
      else:
        # S2: evaluate the code AFTER the Newton loop with the loop's outputs replaced by fresh values
        Mv, Hv, Hov = sym_matrix_full('M', n), sym_matrix_full('H', n), sym_matrix_full('Ho', n)
        ev, rv = z3.Real('e_loop'), z3.Real('r_loop')
        ctx2 = Ctx(unroll=0)
        I3 = Interp(ctx2)

        def hook2(interp, e_, cc, bc_, carry_):
          if is_newton(e_, n):
            return [np.asarray(7), Mv, Hv, Hov, np.array(ev, dtype=object), np.array(rv, dtype=object)]
          return None
        I3.while_hook = hook2
        outs = I3.eval(jp.jaxpr, jp.consts, A)
        X, metrics = jax.tree_util.tree_unflatten(jax.tree_util.tree_structure(jax.eval_shape(fn, jnp.eye(n, dtype=jnp.float32))), outs)
        X = toobj(X)
        rep_err = toobj(metrics.inverse_pth_root_errors).item()
        conv = rv < R.rlit(f32(1.2))
        want = emap(lambda a_, b_: R.s_if(conv, a_, b_), Hv, Hov)
        P.equal(f'{tag}|returned matrix is H when converged (ratio < 1.2) and the OLD H otherwise', X, want, split=[conv])
        mx = None
        for v in emap(lambda a_, b_: R.s_abs(R.s_sub(a_, b_)), Mv, Imask).reshape(-1):
          mx = v if mx is None else R.s_max(mx, v)
        P.equal(f'{tag}|reported error is max|M - I_masked| of the loop\'s final M', np.array([rep_err], dtype=object), np.array([mx], dtype=object))
        a_, b_, r_ = z3.Reals('lem_a lem_b lem_r')
        P.prove(f'{tag}|lemma: ratio = a/b >= 1.2 with b > 0 gives a >= b (reported error of the new M bounds the residual of the old H)',
                a_ >= b_, [b_ > 0, r_ == a_ / b_, r_ >= R.rlit(f32(1.2))], axioms=False)
        P.reach(f'{tag}|twin: non-converged outcome reachable', [], [z3.Not(conv)])
  elif ob in ('S3', 'S3sym'):
    n, p = t['n'], t['p']
    tag = f'{ob}|n={n}|p={p}'
    fn = lambda m: ds.matrix_inverse_pth_root(m, p, ridge_epsilon=EPS, relative_matrix_epsilon=False, padding_start=n, eigh=True)
    jp = jax.make_jaxpr(fn)(jnp.eye(n, dtype=jnp.float32))
    ctx = Ctx()
    I = Interp(ctx)
    ridge = R.s_mul(f32(EPS), R.s_max(Fraction(1), f32(1e-6)))
    if ob == 'S3sym':
      A = sym_matrix('a', n)
      X = toobj(I.eval(jp.jaxpr, jp.consts, A)[0])
      P.equal(f'{tag}|X is symmetric (for any eigendecomposition output)', X, X.T)
      P.reach(f'{tag}|twin', [], [zl(A[0, 0]) > 0])
    else:
      # witnessed decomposition: A + ridge I = U diag(w) U^T with U a rotation (t-parametrisation)
      tt, w1, w2 = z3.Reals('t w1 w2')
      den = 1 + tt * tt
      U = np.array([[(1 - tt * tt) / den, -2 * tt / den], [2 * tt / den, (1 - tt * tt) / den]], dtype=object)
      w = np.array([w1, w2], dtype=object)
      Rg = mm(emap(lambda u, _: u, U, U) * 1, np.array([[w1, 0], [0, w2]], dtype=object))
      Rg = mm(Rg, U.T)
      A = emap(lambda r_, i_: R.s_sub(r_, R.s_mul(ridge, Fraction(i_))), Rg, np.eye(2, dtype=int).astype(object))
      side = Prover(timeout_s=60, fresh=True)

      def witness(kind, a):
        if kind != 'eigh':
          return None
        r = side.equal(f'{tag}|side: the matrix handed to eigh is U diag(w) U^T', a, Rg)
        if not r.ok:
          return None
        return w, U
      ctx.witness = witness
      X = toobj(I.eval(jp.jaxpr, jp.consts, A)[0])
      P.results += side.results
      pre = [w1 >= zl(ridge), w2 >= w1]
      goal = mm(mpow(X, p), Rg)
      if t.get('tier') == 'thorough':     # stretch attempt (stays undecided with the routine's nested sqrt(pow(.)) form): thorough tier only
        P.equal(f'{tag}|X^p (A + ridge I) = I for every rotation U and eigenvalues w >= ridge', goal, np.array([[Fraction(1), Fraction(0)], [Fraction(0), Fraction(1)]], dtype=object),
                pre, timeout_s=10, kind='stretch')
      P.equal(f'{tag}|X symmetric', X, X.T, pre)
      P.reach(f'{tag}|twin', pre, [tt != 0])
  elif ob == 'S3pad':
    # eigh variant on a zero-padded matrix: witnessed decomposition of blockdiag(U diag(w) U^T, 0)
    n, p, pad = t['n'], t['p'], t['pad']
    k = n - pad
    tag = f'S3pad|n={n}|p={p}|pad={pad}'
    fn = lambda m: ds.matrix_inverse_pth_root(m, p, ridge_epsilon=EPS, relative_matrix_epsilon=False, padding_start=k, eigh=True)
    jp = jax.make_jaxpr(fn)(jnp.eye(n, dtype=jnp.float32))
    ctx = Ctx()
    I = Interp(ctx)
    ridge = R.s_mul(f32(EPS), R.s_max(Fraction(1), f32(1e-6)))
    tt, w1, w2 = z3.Reals('t w1 w2')
    den = 1 + tt * tt
    U2 = np.array([[(1 - tt * tt) / den, -2 * tt / den], [2 * tt / den, (1 - tt * tt) / den]], dtype=object)
    R2 = mm(mm(U2, np.array([[w1, 0], [0, w2]], dtype=object)), U2.T)
    Rg = arr((n, n), Fraction(0))
    Rg[:2, :2] = R2
    A = arr((n, n), Fraction(0))
    for i in range(2):
      for j in range(2):
        A[i, j] = R.s_sub(R2[i, j], ridge if i == j else Fraction(0))
    # ascending eigenvalues: the padding eigenvalue 0 first (w1, w2 >= ridge > 0)
    w = np.array([Fraction(0), w1, w2], dtype=object)
    V = arr((n, n), Fraction(0))
    V[2, 0] = Fraction(1)
    V[:2, 1] = U2[:, 0]
    V[:2, 2] = U2[:, 1]
    side = Prover(timeout_s=60, fresh=True)

    def witness(kind, a):
      if kind != 'eigh':
        return None
      r = side.equal(f'{tag}|side: the matrix handed to eigh is blockdiag(U diag(w) U^T, 0)', a, Rg)
      return (w, V) if r.ok else None
    ctx.witness = witness
    X = toobj(I.eval(jp.jaxpr, jp.consts, A)[0])
    P.results += side.results
    pre = [w1 >= zl(ridge), w2 >= w1]
    pads = [X[i, j] for i in range(n) for j in range(n) if i >= k or j >= k]
    P.equal(f'{tag}|X is exactly zero on padding rows and columns', np.array(pads, dtype=object), np.array([Fraction(0)] * len(pads), dtype=object), pre)
    alpha = f32(-1.0 / p)
    want = arr((k, k), Fraction(0))
    for j, wj in ((0, w1), (1, w2)):
      inv = I.pow(R.s_max(wj, ridge), alpha)
      sq = I.sqrt(inv)
      for a_ in range(k):
        for b_ in range(k):
          want[a_, b_] = R.s_add(want[a_, b_], R.s_mul(R.s_mul(U2[a_, j], sq), R.s_mul(U2[b_, j], sq)))
    P.equal(f'{tag}|unpadded block of X = sum over BOTH unpadded eigenpairs of max(w, ridge)^(-1/p) u u^T', X[:k, :k], want, pre,
            split=[w1 == 0, w2 == 0])
    P.reach(f'{tag}|twin', pre, [tt != 0])
  elif ob == 'S4':
    n = t['n']
    tag = f'S4|n={n}'
    fn = lambda m: ds.power_iteration(m, num_iters=100, error_tolerance=1e-6, padding_start=n)
    jp, loops = capture_loops(fn, [jnp.eye(n, dtype=jnp.float32)])
    pw = [e for e in loops if len(e.outvars) == 5 and tuple(e.outvars[1].aval.shape) == (n,)]
    if len(pw) != 1:
      return dict(results=[], violations=[], errors=[f'{tag}: power-iteration loop not found'], configs=1)
    e = pw[0]
    A = sym_matrix('a', n)
    # evaluate the outer jaxpr up to the loop to obtain the body's constants bound to A
    cap = {}
    I = Interp(Ctx())

    def hook(interp, eq, cc, bc, carry):
      if len(eq.outvars) == 5:
        cap.update(bc=bc, eqn=eq)
        raise Captured()
    I.while_hook = hook
    try:
      I.eval(jp.jaxpr, jp.consts, A)
    except Captured:
      pass
    bj = cap['eqn'].params['body_jaxpr']
    v = np.array([z3.Real(f'v{i}') for i in range(n)], dtype=object)
    s_old = np.array(z3.Real('s_old'), dtype=object)
    I2 = Interp(Ctx())
    out = I2.eval(bj.jaxpr, bj.consts, *cap['bc'], np.asarray(1), v, s_old, v, np.asarray(True))
    s_new = toobj(out[2]).item()
    lam = z3.Real('lam')
    # lam I - A positive semi-definite (2x2: diagonal and determinant non-negative)
    psd = [lam - A[0, 0] >= 0, lam - A[1, 1] >= 0, (lam - A[0, 0]) * (lam - A[1, 1]) - A[0, 1] * A[0, 1] >= 0]
    nz = [z3.Or([x != 0 for x in v])]
    P.prove(f'{tag}|Rayleigh quotient of one power-iteration step never exceeds an upper bound lam of the spectrum (lam I - A >= 0)',
            zl(s_new) <= lam, psd + nz, timeout_s=120)
    P.reach(f'{tag}|twin', psd + nz, [zl(A[0, 1]) != 0])
  elif ob == 'S6':
    n, p, rel = t['n'], t['p'], t['rel']
    tag = f"S6|n={n}|p={p}|{'relative' if rel else 'absolute'} ridge|top-2 deflation"
    from ..symjax import stubs as ST
    lin = ds.linalg
    real_lobpcg = lin.lobpcg_standard

    def stub_lobpcg(A_, X_, m_=100, tol=None):
      k_ = X_.shape[1]
      outs = ST.stub_call('lobpcg', [((k_,), A_.dtype), ((A_.shape[0], k_), A_.dtype), ((), jnp.int32)], A_, X_)
      return outs[0], outs[1], outs[2]
    lin.lobpcg_standard = stub_lobpcg
    try:
      fn = lambda m: ds.matrix_inverse_pth_root(m, p, ridge_epsilon=EPS, relative_matrix_epsilon=rel, lobpcg_topk_precondition=2)
      jp = jax.make_jaxpr(fn)(jnp.eye(n, dtype=jnp.float32))
      shape = jax.eval_shape(fn, jnp.eye(n, dtype=jnp.float32))
    finally:
      lin.lobpcg_standard = real_lobpcg
    ctx = Ctx(unroll=0)
    I = Interp(ctx)
    Hv = sym_matrix_full('H', n)
    ev, rv = z3.Real('e_loop'), z3.Real('r_loop')
    hit = []

    def hook(interp, e_, cc, bc_, carry_):
      outs_ = [tuple(v.aval.shape) for v in e_.outvars]
      if len(outs_) == 6 and outs_[1] == (n, n) and outs_[2] == ():      # the retry loop (contains the Newton loop)
        hit.append(1)
        return [np.asarray(1), Hv, np.array(ev, dtype=object), np.asarray(9), np.array(rv, dtype=object), np.asarray(False)]
      return None
    I.while_hook = hook
    A = sym_matrix('a', n)
    outs = I.eval(jp.jaxpr, jp.consts, A)
    if not hit:
      return dict(results=[], violations=[], errors=[f'{tag}: retry loop not found'], configs=1)
    X, metrics = jax.tree_util.tree_unflatten(jax.tree_util.tree_structure(shape), outs)
    X = toobj(X)
    rep_err = toobj(metrics.inverse_pth_root_errors).item()
    if rel:
      ridge = R.s_mul(f32(EPS), R.s_max(toobj(metrics.max_eigen_value).item(), f32(ds._EPSILON)))
    else:
      ridge = R.s_mul(f32(EPS), R.s_max(Fraction(1), f32(ds._EPSILON)))
    Dm = emap(lambda a_, i_: R.s_add(a_, R.s_mul(ridge, Fraction(i_))), A, np.eye(n, dtype=int).astype(object))
    E = mm(mpow(X, p), Dm)
    mx = None
    for i_ in range(n):
      for j_ in range(n):
        v = R.s_abs(R.s_sub(E[i_, j_], Fraction(int(i_ == j_))))
        mx = v if mx is None else R.s_max(mx, v)
    P.equal(f'{tag}|reported error = max|X^p (A + ridge I) - I| of the RETURNED X and the ORIGINAL matrix, for arbitrary eigenpair-routine and loop outputs',
            np.array([rep_err], dtype=object), np.array([mx], dtype=object), timeout_s=20, poly=(p <= 2))
    P.equal(f'{tag}|diagnostics record the same figure split into diagonal and off-diagonal maxima',
            np.array([R.s_max(toobj(metrics.inverse_pth_root_diagnostics.max_diag_error).item(),
                              toobj(metrics.inverse_pth_root_diagnostics.max_off_diag_error).item())], dtype=object),
            np.array([rep_err], dtype=object), timeout_s=20)
    P.reach(f'{tag}|twin', [], [zl(A[0, 1]) != 0, zl(Hv[0, 1]) != 0])
  elif ob == 'S5':
    for n in (2, 3):
      for eigh in (False, True):
        val, m = ds.matrix_inverse_pth_root(jnp.asarray(np.arange(n * n, dtype=np.float32).reshape(n, n)), 2, ridge_epsilon=EPS,
                                            padding_start=0, eigh=eigh)
        ok = not np.any(np.asarray(val)) and float(m.inverse_pth_root_errors) == 0.0
        P.results.append(dict(name=f'S5|n={n}|{"eigh" if eigh else "newton"}: all-padding input returns exactly 0 with error 0',
                              status='unsat' if ok else 'sat', kind='core', queries=0, note='concrete evaluation (padding_start = 0 is a constant)'))
  res = []
  confirmed = None
  for r in P.results:
    r = dict(r)
    if r['status'] in ('sat', 'unknown') and r.get('kind', 'core') == 'core':
      if confirmed is None:
        confirmed = concrete(rp) or False
      if confirmed:
        r['status'] = 'violation'
        path = write_replay(PID, dict(property=PID, replay=rp, observed=confirmed))
        viol.append(dict(key=f"C01:{ob}:{r['name'].split('|')[-1][:40]}", what=confirmed, replay=path))
      elif r['status'] == 'sat':
        r['status'] = 'spurious'
        r['note'] = 'candidate counterexample did not reproduce on the real code'
    res.append(r)
  return dict(results=res, violations=viol, errors=[], configs=1, samples=[dict(task=t)], extra=dict(eval_s=round(time.time() - t0_, 2)))


# ------------------------------------------------------------------------- replay
def concrete(rp):
  """numeric replay on the real routines (float32): structure, honest error, eigenvalue estimate"""
  from precondition import distributed_shampoo as ds
  ob = rp['ob']
  if ob == 'S0':
    n = rp['n']
    try:
      ds.matrix_inverse_pth_root(jnp.eye(n, dtype=jnp.float32) * 2.0, 2, ridge_epsilon=EPS, padding_start=rp['pad'], eigh=rp['eigh'])
    except Exception as ex:
      return f'matrix_inverse_pth_root on a {n}x{n} matrix (padding_start={rp["pad"]}, eigh={rp["eigh"]}) raises {type(ex).__name__}: {ex}'
    return None
  if ob == 'S6':
    return concrete_lobpcg(rp)
  n = rp.get('n', 2)
  p = rp.get('p', 2)
  pad = rp.get('pad', 0)
  k = n - pad
  rng = np.random.RandomState(0)
  for trial in range(6):
    if trial % 2 == 1 and k >= 2:
      # rank-deficient statistic (rank 1, unit scale): the null space sits exactly at the ridge
      G = rng.randn(k, 1)
      S = np.zeros((n, n))
      S[:k, :k] = G @ G.T
    else:
      G = rng.randn(k, k + 1)
      S = np.zeros((n, n))
      S[:k, :k] = G @ G.T * 10.0 ** rng.randint(-2, 3)
    eigh = ob.startswith('S3')
    if ob == 'S4':
      v, s = ds.power_iteration(jnp.asarray(S, jnp.float32), padding_start=k)
      lam = np.linalg.eigvalsh(S).max()
      if float(s) > lam * (1 + 1e-4) + 1e-9:
        return f'power iteration estimate {float(s)} exceeds the largest eigenvalue {lam}'
      continue
    if eigh and k >= 2:
      # tiny ridge on a rank-deficient statistic: float32 eigh returns eigenvalues slightly below 0 for the null space; the
      # returned matrix must still be finite, symmetric and zero on the padding
      for kk_, nn_, ps_ in ((k, n, k), (k, k, None), (4, 4, None)):
        G1 = rng.randn(kk_, 1)
        S1 = np.zeros((nn_, nn_))
        S1[:kk_, :kk_] = G1 @ G1.T
        for tiny in (1e-10, 1e-30):
          X1, m1 = ds.matrix_inverse_pth_root(jnp.asarray(S1, jnp.float32), p, ridge_epsilon=tiny, relative_matrix_epsilon=False, padding_start=ps_, eigh=True)
          X1 = np.asarray(X1, np.float64)
          if not np.all(np.isfinite(X1)):
            return (f'non-finite root (reported error {float(m1.inverse_pth_root_errors)}) from the eigh variant for a rank-1 {kk_}x{kk_} PSD statistic '
                    f'{S1[:kk_, :kk_].reshape(-1).tolist()} (padded to {nn_}x{nn_}, padding_start={ps_}) with ridge_epsilon={tiny}, p={p}')
          if np.any(X1[kk_:, :] != 0) or np.any(X1[:, kk_:] != 0):
            return f'root is not exactly zero on padding rows/columns (n={nn_}, padding_start={ps_}, ridge_epsilon={tiny})'
    X, m = ds.matrix_inverse_pth_root(jnp.asarray(S, jnp.float32), p, ridge_epsilon=EPS, relative_matrix_epsilon=False, padding_start=k, eigh=eigh)
    X = np.asarray(X, np.float64)
    err = float(m.inverse_pth_root_errors)
    if not np.all(np.isfinite(X)):
      return f'non-finite root for a {n}x{n} PSD matrix (p={p})'
    if not np.allclose(X, X.T, rtol=1e-4, atol=1e-6):
      return f'root is not symmetric (n={n}, p={p})'
    if np.any(X[k:, :] != 0) or np.any(X[:, k:] != 0):
      return f'root is not exactly zero on padding rows/columns (n={n}, padding_start={k})'
    if err < 0.1:
      ridge = EPS
      D = S.copy()
      D[:k, :k] += ridge * np.eye(k)
      res = np.abs(np.linalg.matrix_power(X, p)[:k, :k] @ D[:k, :k] - np.eye(k)).max()
      cond = np.linalg.cond(D[:k, :k])
      if res > err + 2e-5 * cond + 1e-4:
        return f'reported error {err} but residual max|X^p (A + dI) - I| = {res} (n={n}, p={p}, cond={cond:.1f})'
  return None


def concrete_lobpcg(rp):
  """real LOBPCG-deflated routine (float32) on random SPD matrices: reported error vs residual of the returned X in float64"""
  from precondition import distributed_shampoo as ds
  rng = np.random.RandomState(0)
  p = rp.get('p', 2)
  for n, topk in ((11, 2), (16, 3), (16, 2), (24, 3)):
    for cond in (10.0, 1e3):
      Q, _ = np.linalg.qr(rng.randn(n, n))
      w = np.geomspace(1.0, cond, n)
      S = (Q * w) @ Q.T
      S = (S + S.T) / 2
      X, m = ds.matrix_inverse_pth_root(jnp.asarray(S, jnp.float32), p, ridge_epsilon=1e-6, relative_matrix_epsilon=rp.get('rel', False),
                                        lobpcg_topk_precondition=topk)
      X = np.asarray(X, np.float64)
      err = float(m.inverse_pth_root_errors)
      ridge = 1e-6 * (max(float(m.max_eigen_value), 1e-16) if rp.get('rel', False) else 1.0)
      res = np.abs(np.linalg.matrix_power(X, p) @ (S + ridge * np.eye(n)) - np.eye(n)).max()
      if np.isfinite(err) and abs(res - err) > 0.05 * max(res, err) + 1e-3 * cond:
        return (f'LOBPCG-deflated root (n={n}, top-{topk}, p={p}, cond={cond:g}): reported error {err:.4g} but max|X^p (A + ridge I) - I| of the '
                f'returned X is {res:.4g}')
  return None


def replay(path):
  d = json.load(open(path))
  what = concrete(d['replay'])
  if what:
    print(f'VIOLATION property={PID} replay={path}')
    print('  ' + what)
    return 1
  print('replay: root routines behave')
  return 0


def run(rep):
  rep.explanation = (
      'Bounded SMT verification (exact reals) of the algebraic skeleton of the inverse p-th root routines on their real jaxprs: S0 the '
      'routines trace for every size incl. 1x1; S1 one evaluation of the coupled Newton loop BODY (extracted from the traced jaxpr) on '
      'an arbitrary carry satisfying Inv (H = h0 I + h1 D [+ h2 D^2], M = H^p D, D arbitrary symmetric, padding zero) re-establishes '
      'Inv, keeps padding exactly zero and reports error = max|M - I_masked|; S1b the initial carry satisfies Inv; S2 the convergence '
      'blend is honest (reported error >= residual of the matrix returned); S3 the eigh variant returns a symmetric X and, with a '
      'witnessed 2x2 decomposition, X^p (A + ridge I) = I; S4 one power-iteration step yields a Rayleigh quotient below every upper '
      'bound of the spectrum; S5 all-padding input returns exactly 0.  Consequence in exact arithmetic: at loop exit the reported '
      'error EQUALS max|X^p (A + dI) - I|.')
  rep.encode('precondition.distributed_shampoo.matrix_inverse_pth_root (_iter_body, _outer_body_fn, blend)/matrix_inverse_pth_root_eigh/'
             'power_iteration/mat_power/InversePthRootDiagnostics.create/_pth_root_difference', 'precondition/distributed_shampoo.py')
  ts = tasks(rep.tier)
  for t in ts:
    t['tier'] = rep.tier
  rep.bounds = dict(tasks=len(ts), n=[1, 2, 3, 4], p=sorted({t['p'] for t in ts if 'p' in t}), padding=[0, 1], loop='one body step from an arbitrary Inv-state (any iteration count)')
  rep.stubs = ['pow(z, 1/p) and sqrt as uninterpreted functions with per-term axioms', 'S6: jax lobpcg_standard -> arbitrary outputs; retry loop (with the Newton loop inside) -> arbitrary outputs; exp/log uninterpreted', 'eigh: free outputs (symmetry) / witnessed 2x2 rotation (S3)']
  rep.assumptions = ['exact real arithmetic', 'absolute ridge (relative_matrix_epsilon=False) so that the ridge is a constant; the estimate that scales it is S4',
                     'H = h0 I + h1 D (+ h2 D^2) parametrises the matrices commuting with D that the iteration generates']
  rep.outside = ['rounding slack proportional to the condition number', 'convergence within 100 iterations', 'quality of the LOBPCG eigenpairs and whether deflation lowers the condition number (only the honesty of the reported figure is encoded, S6)', 'compute dtype',
                 'finiteness of X in floating point']
  run_tasks('vp.props.c01', 'work', ts, report=rep)
