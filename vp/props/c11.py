"""C11 — quantized optimizer state round-trips within half a bucket and never wraps.

Bit-precise float32 (QF_FP, flush-to-zero as XLA:CPU does) evaluation of the jaxprs of
the real QuantizedValue.quantize / to_float; every finite float32 column of m rows is
covered by the solver's verdict (cvc5 + z3 portfolio).
"""
import json
import math
import time
import numpy as np
import z3
import jax
import jax.numpy as jnp

from ..symjax import Ctx, toobj
from ..symjax import fp as FP
from ..symjax.fpinterp import FPInterp, fp_sym_like
from ..fpsolve import check_fp
from ..report import run_tasks, write_replay, load_known

PID = 'C11'
F = FP.F32
FLT_MAX = float(np.finfo(np.float32).max)
TINY = float(np.finfo(np.float32).tiny)      # 2^-126


def nb_of(dt):
  return 127.0 if dt == 'int8' else 32767.0


def tasks(tier):
  out = []
  if tier == 'quick':
    out += [dict(ob='Q1', m=1, dt='int8'), dict(ob='Q1', m=1, dt='int16'), dict(ob='Q1', m=2, dt='int8'),
            dict(ob='Q2', m=1, dt='int8'), dict(ob='Q3', m=1, dt='int8'), dict(ob='Q3diag', m=2, dt='int16'),
            dict(ob='Q4', m=1, dt='int8'), dict(ob='Q5', m=2, dt='float32'), dict(ob='V0', m=0, dt='all', n=24),
            # off-diagonal part of a square (not necessarily symmetric) matrix quantized with extract_diagonal
            dict(ob='Q1diag', m=2, dt='int8')]
  else:
    for dt in ('int8', 'int16'):
      hard = dict(stretch=True) if dt == 'int16' else {}     # int16: two-row no-wrap and re-quantisation stay undecided after 40 min
      out += [dict(ob='Q1', m=1, dt=dt), dict(ob='Q1', m=2, dt=dt, **hard), dict(ob='Q2', m=1, dt=dt),
              dict(ob='Q3', m=1, dt=dt), dict(ob='Q3', m=2, dt=dt), dict(ob='Q3diag', m=2, dt=dt), dict(ob='Q4', m=1, dt=dt, **hard),
              # attempted, reported, but not part of the verdict (these did not finish within the budget when built):
              dict(ob='Q2', m=2, dt=dt, stretch=True), dict(ob='Q4', m=2, dt=dt, stretch=True),
              dict(ob='Q1diag', m=2, dt=dt, **hard), dict(ob='Q2diag', m=2, dt=dt, stretch=True), dict(ob='Q4diag', m=2, dt=dt, stretch=True)]
    out += [dict(ob='Q1', m=3, dt='int8', stretch=True), dict(ob='Q5', m=2, dt='float32'), dict(ob='V0', m=0, dt='all', n=90)]
  return out


CHOICES = []


def evaluate(m, dt, diag=False):
  from precondition.quantization_utils import QuantizedValue
  qd = getattr(jnp, dt)
  shape = (m, m) if diag else (m, 1)

  def f(x):
    q = QuantizedValue.from_float_value(x, qd, extract_diagonal=diag)
    d = q.to_float()
    q2 = QuantizedValue.from_float_value(d, qd, extract_diagonal=diag)
    return q.quantized, q.bucket_size, d, q2.quantized, q2.bucket_size, (q.diagonal if diag else jnp.zeros(()))

  jp = jax.make_jaxpr(f)(jnp.zeros(shape, jnp.float32))
  I = FPInterp(Ctx(), ftz=True)
  x = fp_sym_like('x', np.zeros(shape, np.float32))
  outs = I.eval(jp.jaxpr, jp.consts, x)
  CHOICES[:] = list(I.ctx.div_choices)          # free Booleans: which lowering each broadcast/constant division uses
  return x, [toobj(o) for o in outs], jp


def fabs(v):
  return z3.fpAbs(v)


def region(x, dt, known_open):
  """input assumptions: finite entries; columns in the regions of OPEN known findings are excluded"""
  nb = nb_of(dt)
  a = [z3.Not(z3.Or(z3.fpIsNaN(v), z3.fpIsInf(v))) for v in x.reshape(-1)]
  for col in range(x.shape[1]):
    # maxabs of the column as constraints on every entry
    ent = [x[r, col] for r in range(x.shape[0])]
    if 'C11:overflow:maxabs=FLT_MAX' in known_open:
      a += [z3.fpLT(fabs(v), z3.FPVal(FLT_MAX, F)) for v in ent]
    if 'C11:flush:maxabs<NB*2^-126' in known_open:
      lim = z3.FPVal(nb * TINY, F)
      a.append(z3.Or(z3.And([z3.fpIsZero(v) for v in ent]), z3.Or([z3.fpGEQ(fabs(v), lim) for v in ent])))
    if 'C11:flush:subnormal-entry' in known_open and len(ent) > 1:
      # a subnormal entry is flushed to 0: harmless once half a bucket is at least 2^-126, i.e. max-abs >= NB * 2^-125
      lim2 = z3.FPVal(nb * TINY * 2.0, F)
      big = z3.Or([z3.fpGEQ(fabs(v), lim2) for v in ent])
      a += [z3.Or(z3.Not(z3.fpIsSubnormal(v)), big) for v in ent]
  return a


V0_COMBOS = [(1, 'int8', False), (2, 'int8', False), (1, 'int16', False), (2, 'int16', False), (2, 'int16', True), (2, 'int8', True)]
V0_SPECIALS = [0.0, -0.0, FLT_MAX, -FLT_MAX, TINY, -TINY, 1e-45, 1e-40, -1e-39, 1.0, 0.5, 1.5, 2.5, 126.5, 127.0, 63.5 / 127, 1e-36, 1.5e-36,
               3e38, 1e30, 1e-30, 3.4e38, 15.327792167663574]


def fp_value(term, sub):
  from ..fpsolve import parse_fp
  if not z3.is_expr(term):
    return float(term)
  v = z3.simplify(z3.substitute(term, *sub))
  return parse_fp(v.sexpr())


def validate(n_inputs):
  """translator validation: the FP32 encoding of the jaxpr, evaluated on concrete inputs, must reproduce the real code's
  result bit for bit - for the op-by-op run and for the jitted run, each under SOME assignment of the division-lowering choices"""
  import itertools
  bad, compared, used = [], 0, {}
  for m, dt, diag in V0_COMBOS:
    x, outs, jp = evaluate(m, dt, diag)
    terms = outs[:5]
    chs = list(CHOICES)
    rng = np.random.RandomState(m * 7 + len(dt) + diag)
    for k in range(n_inputs):
      if k % 3 == 0:
        xs = np.array([V0_SPECIALS[rng.randint(len(V0_SPECIALS))] for _ in range(x.size)], np.float32)
      elif k % 3 == 1:
        xs = (np.float32(2.0) ** rng.uniform(-140, 127, size=x.size) * rng.choice([-1, 1], size=x.size)).astype(np.float32)
      else:
        xs = (rng.randn(x.size) * 10).astype(np.float32)
      xs = xs.reshape(x.shape)
      sub = [(v, z3.FPVal(float(a), F)) for v, a in zip(x.reshape(-1), xs.reshape(-1))]
      models = {}
      for bits_ in itertools.product([False, True], repeat=len(chs)):
        sb = sub + [(c, z3.BoolVal(b)) for c, b in zip(chs, bits_)]
        models[bits_] = [np.array([fp_value(tm, sb) for tm in arr.reshape(-1)], np.float64) for arr in terms]
      for jit in (False, True):
        real = [np.asarray(v, np.float64).reshape(-1) for v in real_cycle(xs, dt, diag, jit)]
        compared += 1

        def same(mv, rv):
          if not np.all(np.isfinite(rv[2])):      # re-quantisation of a non-finite tensor: float->int of NaN is outside the encoding (and the property)
            mv, rv = mv[:3], rv[:3]
          return all((np.isnan(a) and np.isnan(b)) or (a == 0 and b == 0) or np.float32(a).tobytes() == np.float32(b).tobytes()
                     for mo, ro in zip(mv, rv) for a, b in zip(mo, ro))
        ok = [bits_ for bits_, mv in models.items() if same(mv, real)]
        if ok:
          used[(jit, ok[0])] = used.get((jit, ok[0]), 0) + 1
        else:
          bad.append(f'm={m} {dt} diag={diag} jit={jit} x={xs.reshape(-1).tolist()}: real {[r.tolist() for r in real]} matches no lowering of the encoding '
                     f'(IEEE-division lowering gives {[v.tolist() for v in models[tuple([False] * len(chs))]]})')
  return bad, compared, used


def work(t):
  if t['ob'] == 'V0':
    t0_ = time.time()
    bad, compared, used = validate(t.get('n', 24))
    res = [dict(name=f'V0|translator validation: FP32 encoding = real code bit for bit on {compared} concrete runs (op-by-op and jitted; boundary values, '
                     'subnormals, ties, random)', status='unsat' if not bad else 'unknown', kind='core', queries=0,
                note='lowerings matched: ' + ', '.join(f"{'jit' if j else 'eager'}:{''.join('R' if b else 'D' for b in bits_) or '-'} x{n}" for (j, bits_), n in sorted(used.items())))]
    return dict(results=res, violations=[], errors=[f'translator validation mismatch: {b[:600]}' for b in bad[:3]], configs=1, samples=[dict(task=t)],
                extra=dict(eval_s=round(time.time() - t0_, 2)))
  t0_ = time.time()
  ob, m, dt = t['ob'], t['m'], t['dt']
  tag = f'{ob}|m={m}|{dt}'
  known_open = {e['key'] for e in load_known(PID) if e.get('status') == 'open'}
  res, viol = [], []
  timeout = int(t.get('timeout', 1200))

  def decide(name, assume, goal, x):
    """one query per assignment of the division-lowering choices (each is a simpler formula), raced in parallel"""
    import itertools
    import concurrent.futures as cf
    from ..fpsolve import to_smt2, check_text
    names = [str(v) for v in x.reshape(-1)]
    body = z3.And(list(assume) + [z3.Not(goal)])
    occurring, todo, seen = set(), [body], set()
    while todo:
      e_ = todo.pop()
      if e_.get_id() in seen:
        continue
      seen.add(e_.get_id())
      if z3.is_const(e_) and e_.decl().kind() == z3.Z3_OP_UNINTERPRETED and z3.is_bool(e_):
        occurring.add(str(e_))
      todo.extend(e_.children())
    chs = [c for c in CHOICES if str(c) in occurring]
    texts = []
    for bits_ in itertools.product([False, True], repeat=len(chs)):
      f = z3.simplify(z3.substitute(body, *[(c, z3.BoolVal(b)) for c, b in zip(chs, bits_)])) if chs else body
      texts.append((bits_, to_smt2([f])))
    with cf.ThreadPoolExecutor(max_workers=max(1, min(len(texts), 4))) as ex:
      rs = list(ex.map(lambda bt: check_text(bt[1], names, timeout), texts))
    sats = [(bt[0], r) for bt, r in zip(texts, rs) if r['status'] == 'sat']
    st = 'sat' if sats else ('unsat' if all(r['status'] == 'unsat' for r in rs) else 'unknown')
    out = dict(name=name, status=st, kind='stretch' if t.get('stretch') else 'core', queries=len(texts), solver_s=round(max(r['wall_s'] for r in rs), 2),
               note=f"{len(texts)} division-lowering cases; decided by {sorted({str(r['solver']) for r in rs})}")
    if st == 'sat':
      reproduced = None
      for bits_, r in sats:
        xs = np.array([r['model'].get(n, 0.0) for n in names], np.float32).reshape(x.shape)
        what = concrete(t['ob'], dt, xs)
        if what:
          reproduced = (xs, what)
          break
      if reproduced:
        xs, what = reproduced
        path = write_replay(PID, dict(property=PID, ob=t['ob'], dt=dt, x=[float(v) for v in xs.reshape(-1)], shape=list(xs.shape), observed=what))
        viol.append(dict(key=f"C11:{t['ob']}:{dt}", what=what, replay=path))
        out['status'] = 'violation'
      else:
        out['status'] = 'spurious'
        out['note'] += f'; model {xs.reshape(-1).tolist()} (lowering {bits_}) did not reproduce on the real code (op-by-op and jitted)'
    res.append(out)
    return out

  def twin(name, assume, extra):
    r = check_fp(list(assume) + list(extra), timeout_s=120)
    res.append(dict(name=name, status=r['status'], kind='twin', queries=1, solver_s=r['wall_s']))

  if ob == 'Q5':
    from precondition.quantization_utils import QuantizedValue
    f = lambda x: QuantizedValue.from_float_value(x, jnp.float32).to_float()
    jp = jax.make_jaxpr(f)(jnp.zeros((m, 1), jnp.float32))
    I = FPInterp(Ctx(), ftz=True)
    x = fp_sym_like('x', np.zeros((m, 1), np.float32))
    out = toobj(I.eval(jp.jaxpr, jp.consts, x)[0])
    same = all(a.eq(b) for a, b in zip(out.reshape(-1), x.reshape(-1)))
    res.append(dict(name=f'{tag}|float32 mode is the identity (terms passed through)', status='unsat' if same else 'sat', kind='core', queries=0))
    return dict(results=res, violations=[], errors=[], configs=1, samples=[dict(task=t)], extra={})

  diag = ob.endswith('diag')
  x, (q, bs, deq, q2, bs2, dg), jp = evaluate(m, dt, diag)
  nb = nb_of(dt)
  A = region(x, dt, known_open)
  if diag and 'C11:flush:subnormal-diagonal' in known_open:
    A += [z3.Not(z3.fpIsSubnormal(x[i, i])) for i in range(m)]
  if diag and ob != 'Q3diag':
    # the quantized part is the matrix with its diagonal removed: the per-column statements are about the off-diagonal entries
    x_full, ob = x, ob[:2]
    x = x.copy()
    for i in range(m):
      x[i, i] = z3.FPVal(0.0, F)
    A = region(x, dt, known_open) + [z3.Not(z3.Or(z3.fpIsNaN(x_full[i, i]), z3.fpIsInf(x_full[i, i]), z3.fpIsSubnormal(x_full[i, i]))) for i in range(m)]
    x_model = x_full
  else:
    x_model = x
  if ob == 'Q1':
    goal = z3.And([z3.And(z3.fpLEQ(fabs(v), z3.FPVal(nb, F)), z3.Not(z3.fpIsNaN(v))) for v in q.reshape(-1)])
    decide(f'{tag}|stored integers are within [-{int(nb)}, {int(nb)}] (the most negative value is never used, no wrap)', A, goal, x_model)
    twin(f'{tag}|twin: extreme bucket reachable', A, [z3.fpEQ(q.reshape(-1)[m if diag else 0], z3.FPVal(-nb, F))])
  elif ob == 'Q2':
    goals = []
    for r_ in range(x.shape[0]):
      for c in range(x.shape[1]):
        if diag and r_ == c:
          continue
        diff = fabs(z3.fpSub(z3.RTZ(), deq[r_, c], x[r_, c]))
        mx = fabs(x[0, c])
        for rr in range(1, x.shape[0]):
          mx = z3.If(z3.fpGEQ(fabs(x[rr, c]), mx), fabs(x[rr, c]), mx)
        half = z3.fpMul(z3.RTP(), bs[c], z3.FPVal(0.5, F))
        slack = z3.fpMul(z3.RTP(), mx, z3.FPVal(2.0 ** -22, F))
        goals.append(z3.fpLEQ(diff, z3.fpAdd(z3.RTP(), half, slack)))
    if diag:
      # one query per off-diagonal entry (the conjunction over both columns did not finish within 8 min)
      offs = [(r_, c) for r_ in range(x.shape[0]) for c in range(x.shape[1]) if r_ != c]
      for (r_, c), g_ in zip(offs, goals):
        decide(f'{tag}|entry ({r_},{c}): dequantize(quantize(x)) within bucket/2 + 2 ulp(maxabs) of x', A, g_, x_model)
    else:
      decide(f'{tag}|dequantize(quantize(x)) within bucket/2 + 2 ulp(maxabs) of x', A, z3.And(goals), x_model)
    twin(f'{tag}|twin: non-zero rounding error reachable', A, [z3.Not(z3.fpEQ(deq[x.shape[0] - 1, 0], x[x.shape[0] - 1, 0]))] if not diag else
         [z3.Not(z3.fpIsZero(x[1, 0]))])
  elif ob == 'Q3':
    goals = [z3.Implies(z3.fpIsZero(x[r_, c]), z3.fpIsZero(deq[r_, c])) for r_ in range(x.shape[0]) for c in range(x.shape[1])]
    decide(f'{tag}|zeros are reproduced exactly', A, z3.And(goals), x)
    twin(f'{tag}|twin: a zero next to a non-zero entry reachable', A, [z3.fpIsZero(x[0, 0])] + ([z3.Not(z3.fpIsZero(x[1, 0]))] if m > 1 else []))
  elif ob == 'Q3diag':
    goals = [z3.fpEQ(deq[i, i], x[i, i]) for i in range(m)] + [z3.fpEQ(dg[i], x[i, i]) for i in range(m)]
    decide(f'{tag}|extracted diagonal of a square matrix is reproduced exactly', A, z3.And(goals), x)
    twin(f'{tag}|twin: non-zero diagonal reachable', A, [z3.Not(z3.fpIsZero(x[0, 0]))])
  elif ob == 'Q4':
    goals = [z3.fpEQ(a, b) for a, b in zip(q2.reshape(-1), q.reshape(-1))]
    # re-quantisation sees the dequantised column: its own max must also be outside the open-finding regions
    deq_r = deq
    if diag:
      deq_r = deq.copy()
      for i in range(m):
        deq_r[i, i] = z3.FPVal(0.0, F)
    A2 = A + region(deq_r, dt, known_open)
    decide(f'{tag}|re-quantizing the dequantized value reproduces the same integers', A2, z3.And(goals), x_model)
  return dict(results=res, violations=viol, errors=[], configs=1, samples=[dict(task=t, jaxpr_eqns=len(jp.jaxpr.eqns))],
              extra=dict(eval_s=round(time.time() - t0_, 2)))


# ------------------------------------------------------------------------- replay
def real_cycle(xs, dt, diag, jit):
  """quantize, dequantize, re-quantize on the real code; op-by-op or as one jitted program (XLA lowers the two differently)"""
  from precondition.quantization_utils import QuantizedValue
  qd = getattr(jnp, dt)

  def f(x):
    qv = QuantizedValue.from_float_value(x, qd, extract_diagonal=diag)
    d = qv.to_float()
    qv2 = QuantizedValue.from_float_value(d, qd, extract_diagonal=diag)
    return qv.quantized, qv.bucket_size, d, qv2.quantized, qv2.bucket_size
  return [np.asarray(v) for v in (jax.jit(f) if jit else f)(jnp.asarray(xs))]


def concrete(ob, dt, xs):
  """the property on the real code for one concrete float32 tensor, executed op-by-op and jitted"""
  for jit in (False, True):
    what = concrete1(ob, dt, xs, jit)
    if what:
      return what + (' [jitted]' if jit else ' [op-by-op]')
  return None


def concrete1(ob, dt, xs, jit):
  xs = np.asarray(xs, np.float32)
  diag = ob.endswith('diag')
  qr, bsr, d, q2r, bs2r = real_cycle(xs, dt, diag, jit)
  if diag and ob != 'Q3diag':
    ob = ob[:2]
  d = np.asarray(d, np.float32)
  q = qr.astype(np.int64)
  nb = int(nb_of(dt))
  x64 = xs.astype(np.float64)
  if diag:
    x64 = x64 - np.diag(np.diag(x64))     # the quantized part: diagonal removed
    d_off = d.astype(np.float64) - np.diag(np.diag(d.astype(np.float64)))
  else:
    d_off = d.astype(np.float64)
  if ob == 'Q1':
    if np.any(np.abs(q) > nb):
      return f'quantize({xs.reshape(-1).tolist()}, {dt}) stores {q.reshape(-1).tolist()} outside [-{nb}, {nb}]'
    return None
  if ob == 'Q2':
    mx = np.abs(x64).max(axis=0)
    bucket = mx / nb
    err = np.abs(d_off - x64)
    bound = bucket / 2 + 2 * mx * 2.0 ** -23 + 1e-45
    if not np.all(np.isfinite(d)) or np.any(err > bound):
      return (f'dequantize(quantize({xs.reshape(-1).tolist()}, {dt})) = {d.reshape(-1).tolist()}: error {err.max()} exceeds half a bucket '
              f'({(bucket / 2).max()})')
    return None
  if ob == 'Q3':
    if np.any((xs == 0) & (d != 0)):
      return f'zero entry of {xs.reshape(-1).tolist()} dequantizes to {d.reshape(-1).tolist()}'
    return None
  if ob == 'Q3diag':
    if not np.array_equal(np.diag(d), np.diag(xs)):
      return f'diagonal {np.diag(xs).tolist()} comes back as {np.diag(d).tolist()}'
    return None
  if ob == 'Q4':
    if not np.array_equal(q2r, qr):
      return (f're-quantizing dequantize(quantize({xs.reshape(-1).tolist()})) gives integers {q2r.reshape(-1).tolist()} '
              f'instead of {q.reshape(-1).tolist()}')
    return None
  return None


def known_replays():
  """re-confirm the OPEN known findings on the real code; returns violation dicts with their keys"""
  out = []
  for e in load_known(PID):
    if e.get('status') != 'open':
      continue
    inp = e.get('input')
    what = concrete(inp['ob'], inp['dt'], np.asarray(inp['x'], np.float32).reshape(inp['shape']))
    if what:
      path = write_replay(PID, dict(property=PID, ob=inp['ob'], dt=inp['dt'], x=inp['x'], shape=inp['shape'], observed=what, known=e['key']))
      out.append(dict(key=e['key'], what=what, replay=path))
  return out


def replay(path):
  d = json.load(open(path))
  what = concrete(d['ob'], d['dt'], np.asarray(d['x'], np.float32).reshape(d['shape']))
  if what:
    print(f'VIOLATION property={PID} replay={path}')
    print('  ' + what)
    return 1
  print('replay: round trip within bounds')
  return 0


def run(rep):
  rep.explanation = (
      'Bit-precise QF_FP verification (float32 with flush-to-zero, as XLA:CPU executes) of the jaxprs of the real '
      'QuantizedValue.quantize / to_float for EVERY finite float32 column of m rows: Q1 stored integers within [-127,127] / '
      '[-32767,32767] (no wrap, most negative value unused), Q2 |dequantize(quantize(x)) - x| <= bucket/2 + 2 ulp(maxabs) '
      '(difference rounded toward zero, bound rounded up, so the check cannot alarm on a true non-violation), Q3 zeros and the '
      'extracted diagonal exact, Q4 re-quantizing a dequantized value reproduces integers and bucket, Q5 float32 mode is the '
      'identity.  Columns in the regions of the two recorded known findings are excluded by assumption and re-confirmed by replay.')
  rep.encode('precondition.quantization_utils.QuantizedValue.quantize/from_float_value/to_float', 'precondition/quantization_utils.py')
  ts = tasks(rep.tier)
  for t in ts:
    t['timeout'] = 1500 if rep.tier == 'quick' else (500 if t.get('stretch') else 1500)
  rep.bounds = dict(tasks=len(ts), rows_per_column=sorted({t['m'] for t in ts}), dtypes=sorted({t['dt'] for t in ts}),
                    values='all finite float32 bit patterns (subnormals included) per entry')
  rep.assumptions = ['XLA:CPU flush-to-zero semantics for float32 arithmetic', 'float->int conversion is exact for in-range integral values (range is obligation Q1)',
                     'columns are independent (the jaxpr reduces over axis 0 only)', 'no FMA contraction']
  rep.outside = ['bfloat16 mode (narrow float conversion not encoded)', 'more than 3 rows per column (quick: 2)', 'NaN/Inf inputs (the property speaks of finite tensors)']
  rep.extra['solvers'] = 'cvc5 1.4.0 wheel and z3 5.1.0 CLI raced per query; first definite answer wins'
  # every task races up to 4 lowering cases x 2 solvers: keep the number of solver processes near the core count
  run_tasks('vp.props.c11', 'work', ts, report=rep, timeout=(1700 if rep.tier == 'quick' else 6300), workers=(8 if rep.tier == 'quick' else 3))
  rep.violations += known_replays()
