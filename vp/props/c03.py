"""C03 — a preconditioner is replaced only by a verified root; failures never leak.

Bit-precise FP32 (QF_FP) evaluation of the real update jaxprs.  Root outputs are
UNCONSTRAINED float32 values (any bit pattern incl. NaN/+-Inf), stored state and
gradients likewise; only the cone of the stored-preconditioner and metric outputs is
handed to the solver.
"""
import json
import math
import time
import numpy as np
import z3
import jax
import jax.numpy as jnp

from .. import dsh
from ..symjax import Ctx, toobj
from ..symjax import fp as FP
from ..symjax.fpinterp import FPInterp, fp_sym_like
from ..symjax.spmd import eval_spmd, fp_dev_interp
from ..solve import Prover, abstract_fp_arith
from ..report import run_tasks, write_replay

PID = 'C03'
THRS = [0.0, 2.0 ** -100, 0.125, 3e38]


def tasks(tier):
  out = []
  shapes = [[(2, 2)], [(3,), (2, 2)]]
  for mode in ('replicated', 'quantized', 'sharded'):
    for ti, thr in enumerate(THRS):
      for q in ((1, 2) if tier == 'quick' else (1, 2, 3)):
        for si, sh in enumerate(shapes):
          if tier == 'quick' and (ti + q + si) % 2:
            continue
          out.append(dict(mode=mode, thr=thr, q=q, shapes=[list(s) for s in sh], eps=[0.0, 2.0 ** -20][ti % 2]))
  out.append(dict(kind='g4', mode='replicated', thr=0.125, q=1, shapes=[[2, 2]], eps=2.0 ** -20, graft='RMSPROP'))
  if tier == 'thorough':
    for graft in ('SGD', 'ADAGRAD', 'RMSPROP_NORMALIZED'):
      out.append(dict(kind='g4', mode='replicated', thr=0.125, q=1, shapes=[[2, 2]], eps=2.0 ** -20, graft=graft))
    out.append(dict(kind='g4', mode='replicated', thr=0.125, q=2, shapes=[[3], [2, 2]], eps=0.0, graft='RMSPROP'))
  return out


def cfg_of(t):
  c = dict(thr=t['thr'], q=t['q'], s=1, start=1, block_size=4, graft='RMSPROP', matrix_epsilon=t['eps'])
  if t['mode'] == 'quantized':
    c.update(batch_axis_name='batch', memory_reduction=True)
  return dsh.full_cfg(c)


def beq(a, b):
  """bitwise equality of two arrays of FP terms / constants -> list of z3 Bools (or python bools)"""
  a, b = toobj(a), toobj(b)
  return [FP.bits_equal(x, y) for x, y in zip(a.reshape(-1), b.reshape(-1))]


def conj(xs):
  xs = [x for x in xs if x is not True]
  if any(x is False for x in xs):
    return z3.BoolVal(False)
  return z3.And(xs) if xs else z3.BoolVal(True)


def stub_contract(err):
  """documented contract of the reported error: a maximum of absolute values -> NaN or >= 0"""
  return z3.Not(z3.fpLT(err, FP.fpv(0.0)))


G4_BOUND = 2.0 ** 40


def work_g4(t):
  """G4 (zero-gradient case): from any finite state of bounded magnitude, with finite roots, a zero gradient gives a
  finite update - full FP32 cone, no arithmetic abstraction."""
  from ..fpsolve import check_fp
  t0_ = time.time()
  dsh.install_root_stub()
  c = cfg_of(t)
  c['graft'] = t['graft']
  c = dsh.full_cfg(c)
  shapes = [tuple(s) for s in t['shapes']]
  params = dsh.zeros_tree(shapes)
  tag = f"G4|{t['mode']}|graft={t['graft']}|q={t['q']}|eps={t['eps']}|" + '+'.join('x'.join(map(str, s)) for s in shapes)
  opt = dsh.make_opt(c)
  tr, state = dsh.trace_update(opt, params)
  leaves = tr.sym_inputs(maker=fp_sym_like)
  B = FP.fpv(np.float32(G4_BOUND))
  assume = []
  for k, nm in enumerate(tr.names):
    if nm.startswith('a[0]'):
      leaves[k] = np.zeros(np.shape(tr.flat[k]), np.float32)
      continue
    arr = toobj(leaves[k])
    for x in arr.reshape(-1):
      if z3.is_fp(x):
        assume += [z3.Not(z3.fpIsNaN(x)), z3.fpLEQ(z3.fpAbs(x), B)]
        if 'diagonal_statistics' in nm:
          assume.append(z3.fpGEQ(x, FP.fpv(0.0)))
  ctx = Ctx()
  upd, new = tr.run(FPInterp(ctx), leaves)
  count = tr.unflatten_in(leaves)[1].count.item()
  assume += [count >= 0, count <= 2 ** 31 - 2]
  for a in ctx.stub_log:
    if a[0] == 'root':
      for x in a[2][0].reshape(-1):
        assume += [z3.Not(z3.fpIsNaN(x)), z3.fpLEQ(z3.fpAbs(x), B)]
  us = [x for a in jax.tree_util.tree_leaves(upd, is_leaf=lambda x: isinstance(x, np.ndarray)) for x in toobj(a).reshape(-1)]
  sym = [x for x in us if z3.is_fp(x)]
  bad_const = [x for x in us if not z3.is_fp(x) and not np.isfinite(float(x))]
  goal = z3.And([z3.And(z3.Not(z3.fpIsNaN(x)), z3.Not(z3.fpIsInf(x))) for x in sym]) if sym else z3.BoolVal(True)
  name = f'{tag}|G4 zero gradient, finite state (|x| <= 2^40, accumulators >= 0), finite roots: every update entry is finite'
  if bad_const:
    r = dict(status='sat', solver='constant folding', wall_s=0.0)
  else:
    r = check_fp(assume + [z3.Not(goal)], timeout_s=t.get('timeout', 700))
  st = {'unsat': 'unsat', 'sat': 'sat'}.get(r['status'], 'unknown')
  out = dict(name=name, status=st, kind='core', queries=1, solver_s=r['wall_s'], note=f"decided by {r['solver']}; full cone, no abstraction")
  viol = []
  if st == 'sat':
    what = g4_concrete(t)
    if what:
      path = write_replay(PID, dict(property=PID, task=t, observed=what))
      out['status'] = 'violation'
      viol.append(dict(key=f"C03:g4:{t['graft']}", what=what, replay=path))
    else:
      out['status'] = 'spurious'
      out['note'] = 'candidate did not reproduce on the real code (state outside the reachable set?)'
      out['kind'] = 'stretch'
  elif st == 'unknown':
    out['kind'] = 'stretch'     # best-effort obligation: an undecided attempt is reported, not counted
    out['note'] = 'solvers did not decide within the budget; G4 is then not covered by this run'
  tw = check_fp(assume, timeout_s=120)
  res = [out, dict(name=f'{tag}|twin: G4 assumptions satisfiable', status=tw['status'] if tw['status'] == 'sat' else 'unknown',
                   kind='twin' if st != 'unknown' else 'stretch', queries=1, solver_s=tw['wall_s'])]
  return dict(results=res, violations=viol, errors=[], configs=1, samples=[dict(task=t, jaxpr_eqns=tr.n_eqns)],
              extra=dict(jaxpr_eqns_total=tr.n_eqns, eval_s=round(time.time() - t0_, 2)))


def g4_run(t, seed):
  """real optimizer: moderate or zero gradients, then zero gradients; every update must be finite"""
  c = cfg_of(t)
  c['graft'] = t['graft']
  c = dsh.full_cfg(c)
  shapes = [tuple(s) for s in t['shapes']]
  rng = np.random.RandomState(seed)
  params = {f'p{i}': jnp.asarray(rng.randn(*sh), jnp.float32) for i, sh in enumerate(shapes)}
  opt = dsh.make_opt(c)
  state = opt.init(params)
  for step in range(6):
    scale = 0.0 if (step >= 3 or seed == 0) else float(10.0 ** rng.randint(-3, 4))
    g = {k: jnp.asarray(scale * rng.randn(*v.shape), jnp.float32) for k, v in params.items()}
    u, state = opt.update(g, state, params)
    for k, v in u.items():
      if not np.all(np.isfinite(np.asarray(v))):
        return f'step {step} (gradient scale {scale}): update of {k} is not finite: {np.asarray(v).reshape(-1)[:4]}'
  return None


def g4_concrete(t):
  import subprocess, sys, os
  src = REPLAY_SRC.replace('c03.fault_run(t, seed)', 'c03.g4_run(t, seed)')
  for seed in range(3):
    out = subprocess.run([sys.executable, '-c', src, json.dumps(t), str(seed)], capture_output=True, text=True, env=dict(os.environ))
    try:
      what = json.loads(out.stdout.strip().splitlines()[-1])
    except Exception:
      what = None
    if what:
      return what
  return None


def work(t):
  if t.get('kind') == 'g4':
    return work_g4(t)
  t0_ = time.time()
  dsh.install_root_stub()
  c = cfg_of(t)
  shapes = [tuple(s) for s in t['shapes']]
  params = dsh.zeros_tree(shapes)
  mode = t['mode']
  tag = f"{mode}|thr={t['thr']}|q={t['q']}|eps={t['eps']}|" + '+'.join('x'.join(map(str, s)) for s in shapes)
  thr = FP.fpv(np.float32(t['thr']))
  P = Prover(timeout_s=60, first_s=20.0)
  _prove = P.prove
  cuts = [0]

  def prove_cut(name, goal, assume=(), **kw):
    # cone cut: float arithmetic feeding the gate (statistics update, quantisation of a new root)
    # is irrelevant to the gate and is abstracted to fresh values (sound for validity)
    (g2, *a2), n = abstract_fp_arith([goal] + list(assume))
    cuts[0] += n
    kw.pop('nosplit', None)
    return _prove(name, g2, a2, nosplit=True, **kw)
  P.prove = prove_cut
  if mode == 'sharded':
    tr, state, opt, mesh = dsh.trace_sharded(c, params, 2)
  elif mode == 'quantized':
    opt = dsh.make_opt(c)
    tr, state = dsh.trace_update(opt, params, axis_env=[('batch', 1)])
  else:
    opt = dsh.make_opt(c)
    tr, state = dsh.trace_update(opt, params)
  leaves = tr.sym_inputs(maker=fp_sym_like)
  # exponents (sharded global state) are constants fixed by init
  for k, nm in enumerate(tr.names):
    if nm.endswith('.exponents'):
      leaves[k] = np.asarray(tr.flat[k])
  g_, st_, p_ = tr.unflatten_in(leaves)
  ctx = Ctx()
  if mode == 'quantized':
    outs, interps = eval_spmd(tr.jaxpr.jaxpr, tr.jaxpr.consts, [leaves], 1, interp_cls=fp_dev_interp(), ctx_factory=lambda d: ctx)
    upd, new = tr.unflatten_out(outs[0])
  else:
    I = FPInterp(ctx)
    upd, new = tr.run(I, leaves)
  count = st_.count.item()
  rng = [count >= 0, count <= 2 ** 31 - 2]
  q = t['q']
  off = [count % q != 0] if q > 1 else None
  on = [count % q == 0] if q > 1 else []
  # stub applications: one batched application; output 0 = roots [n, m, m], output 1 = errors [n]
  apps = [a for a in ctx.stub_log if a[0] == 'root']
  roots = np.concatenate([a[2][0].reshape((-1,) + a[2][0].shape[-2:]) for a in apps]) if apps else None
  errs = np.concatenate([a[2][1].reshape(-1) for a in apps]) if apps else None
  contract = [stub_contract(e) for e in errs] if errs is not None else []
  n_checked = 0
  if mode == 'sharded':
    gs_old, gs_new = st_.stats.global_stats, new.stats.global_stats
    nstat = gs_old.preconditioners.shape[0]
    for k in range(nstat):
      old, nw = gs_old.preconditioners[k], gs_new.preconditioners[k]
      e = errs[k]
      accepted = z3.And(z3.Not(z3.fpIsNaN(e)), z3.Not(z3.fpIsInf(e)), z3.fpLT(e, thr))
      goal = z3.Or(conj(beq(nw, old)), z3.And(conj(beq(nw, roots[k][:old.shape[0], :old.shape[1]])), accepted))
      P.prove(f'{tag}|G3 global preconditioner[{k}] is the old one bit-for-bit or an accepted root', goal, rng + on + contract)
      if off:
        P.prove(f'{tag}|G2 global preconditioner[{k}] bit-identical when count % q != 0', conj(beq(nw, old)), rng + off + contract)
      n_checked += 1
    for key in new.stats.local_stats:
      mo, mn = st_.stats.local_stats[key].training_metrics, new.stats.local_stats[key].training_metrics
      if off:
        lo = jax.tree_util.tree_leaves(mo, is_leaf=lambda x: isinstance(x, np.ndarray))
        ln = jax.tree_util.tree_leaves(mn, is_leaf=lambda x: isinstance(x, np.ndarray))
        P.prove(f'{tag}|G2 metrics of {key} bit-identical when count % q != 0',
                conj([b for x, y in zip(ln, lo) for b in beq(x, y)]), rng + off + contract)
  else:
    k = 0
    for key in sorted(new.stats):
      so, sn = st_.stats[key], new.stats[key]
      for j in range(len(sn.preconditioners)):
        old, nw = so.preconditioners[j], sn.preconditioners[j]
        e = errs[k]
        accepted = z3.And(z3.Not(z3.fpIsNaN(e)), z3.Not(z3.fpIsInf(e)), z3.fpLT(e, thr))
        rejected = z3.Or(z3.fpIsNaN(e), z3.fpGEQ(e, thr))
        if mode == 'replicated':
          newv = roots[k][:old.shape[0], :old.shape[1]]
          goal = z3.Or(conj(beq(nw, old)), z3.And(conj(beq(nw, newv)), accepted))
          P.prove(f'{tag}|G1 {key}.preconditioners[{j}] is the old one bit-for-bit or an accepted root', goal, rng + on + contract)
        else:
          lo = [old.quantized, old.diagonal, old.bucket_size]
          ln = [nw.quantized, nw.diagonal, nw.bucket_size]
          same = conj([b for x, y in zip(ln, lo) for b in beq(x, y)])
          P.prove(f'{tag}|G1 {key}.preconditioners[{j}] (quantized, diagonal, bucket) unchanged unless the root is accepted',
                  z3.Or(same, accepted), rng + on + contract)
          P.prove(f'{tag}|G1 {key}.preconditioners[{j}] rejected root (NaN or error >= threshold) leaves all three parts bit-identical',
                  same, rng + on + contract + [rejected])
        if off:
          lo = jax.tree_util.tree_leaves(old, is_leaf=lambda x: isinstance(x, np.ndarray))
          ln = jax.tree_util.tree_leaves(nw, is_leaf=lambda x: isinstance(x, np.ndarray))
          P.prove(f'{tag}|G2 {key}.preconditioners[{j}] bit-identical when count % q != 0',
                  conj([b for x, y in zip(ln, lo) for b in beq(x, y)]), rng + off + contract)
        k += 1
        n_checked += 1
      if off and len(sn.preconditioners):
        lo = jax.tree_util.tree_leaves(so.training_metrics, is_leaf=lambda x: isinstance(x, np.ndarray))
        ln = jax.tree_util.tree_leaves(sn.training_metrics, is_leaf=lambda x: isinstance(x, np.ndarray))
        P.prove(f'{tag}|G2 metrics of {key} bit-identical when count % q != 0',
                conj([b for x, y in zip(ln, lo) for b in beq(x, y)]), rng + off + contract)
  # twins: a NaN error and an accepted error are both possible on a refresh step
  if errs is not None and len(errs):
    P.reach(f'{tag}|twin: NaN error on a refresh step reachable', rng + on + contract, [z3.fpIsNaN(errs[0])])
    if t['thr'] > 0:
      P.reach(f'{tag}|twin: accepted error on a refresh step reachable', rng + on + contract,
              [z3.fpLT(errs[0], thr), z3.Not(z3.fpIsNaN(errs[0]))])
  res, viol = [], []
  confirmed = None
  for r in P.results:
    r = dict(r)
    if r['status'] in ('sat', 'unknown') and r.get('kind', 'core') == 'core':
      if confirmed is None:
        confirmed = confirm(t) or False
      if confirmed:
        r['status'] = 'violation'
        viol.append(dict(key=confirmed['key'], what=confirmed['what'], replay=confirmed['replay']))
      elif r['status'] == 'sat':
        r['status'] = 'spurious'
        r['note'] = 'candidate counterexample did not reproduce on the real code'
    res.append(r)
  return dict(results=res, violations=viol, errors=[], configs=1,
              samples=[dict(task=t, jaxpr_eqns=tr.n_eqns, preconditioners_checked=n_checked)],
              extra=dict(jaxpr_eqns_total=tr.n_eqns, eval_s=round(time.time() - t0_, 2), fp_arith_terms_cut=cuts[0]))


# ------------------------------------------------------------------------- replay
REPLAY_SRC = r'''
import os, sys, json
os.environ['JAX_PLATFORMS'] = 'cpu'
import numpy as np, jax, jax.numpy as jnp
sys.path.insert(0, '/verif'); sys.path.insert(0, os.environ.get('VP_REPO', '/repo'))
from vp import dsh
from vp.props import c03
t = json.loads(sys.argv[1]); seed = int(sys.argv[2])
print(json.dumps(c03.fault_run(t, seed)))
'''

FAULTS = [float('nan'), float('inf'), -float('inf'), 0.0, 1e30, 1e-30, 3e38]


def bits(x):
  return [np.asarray(l).tobytes() for l in jax.tree_util.tree_leaves(x)]


def fault_run(t, seed):
  """real, unstubbed optimizer; gradient faults injected at random steps; observes the gate bitwise"""
  c = cfg_of(t)
  shapes = [tuple(s) for s in t['shapes']]
  rng = np.random.RandomState(seed)
  params = {f'p{i}': jnp.asarray(rng.randn(*sh), jnp.float32) for i, sh in enumerate(shapes)}
  mode = t['mode']
  q, thr = t['q'], np.float32(t['thr'])
  T = 8
  def grads(step):
    g = {}
    for k, v in params.items():
      a = rng.randn(*v.shape).astype(np.float32)
      if step >= 2 and rng.rand() < 0.6:
        f = FAULTS[rng.randint(len(FAULTS))]
        if rng.rand() < 0.5:
          a[...] = f
        else:
          a.reshape(-1)[rng.randint(a.size)] = f
      g[k] = jnp.asarray(a)
    return g
  if mode == 'sharded':
    tr, state, opt, mesh = dsh.trace_sharded(c, params, 2)
    with mesh:
      upd = jax.jit(opt.update)
      for step in range(T):
        g = grads(step)
        u, new = upd(g, state, params)
        old_p, new_p = np.asarray(state.stats.global_stats.preconditioners), np.asarray(new.stats.global_stats.preconditioners)
        errs = np.concatenate([np.asarray(new.stats.local_stats[k].training_metrics.inverse_pth_root_errors).reshape(-1)
                               for k in sorted(new.stats.local_stats)])
        for k in range(old_p.shape[0]):
          changed = old_p[k].tobytes() != new_p[k].tobytes()
          if changed and step % q != 0:
            return f'step {step}: global preconditioner {k} changed although {step} % {q} != 0'
          if changed and k < len(errs) and not (np.isfinite(errs[k]) and errs[k] < thr):
            return (f'step {step}: global preconditioner {k} changed to {new_p[k].reshape(-1)[:4]} although the reported error is '
                    f'{errs[k]} (threshold {thr})')
          if not np.all(np.isfinite(new_p[k])) and np.all(np.isfinite(old_p[k])):
            return f'step {step}: global preconditioner {k} became non-finite: {new_p[k].reshape(-1)[:4]}'
        state = new
    return None
  opt = dsh.make_opt(c)
  if mode == 'quantized':
    devs = jax.devices()[:1]
    rep = lambda x: jax.tree_util.tree_map(lambda a: jnp.stack([jnp.asarray(a)] * len(devs)), x)
    state = jax.pmap(opt.init, axis_name='batch', devices=devs)(rep(params))
    upd = jax.pmap(opt.update, axis_name='batch', devices=devs)
  else:
    state = opt.init(params)
    upd = opt.update
  for step in range(T):
    g = grads(step)
    if mode == 'quantized':
      u, new = upd(rep(g), state, rep(params))
    else:
      u, new = upd(g, state, params)
    for key in sorted(params):
      so, sn = state.stats[key], new.stats[key]
      errs = np.asarray(sn.training_metrics.inverse_pth_root_errors).reshape(-1)
      for j in range(len(sn.preconditioners)):
        changed = bits(so.preconditioners[j]) != bits(sn.preconditioners[j])
        if changed and step % q != 0:
          return f'step {step}: {key}.preconditioners[{j}] changed although {step} % {q} != 0'
        if changed and not (np.isfinite(errs[j]) and errs[j] < thr):
          return f'step {step}: {key}.preconditioners[{j}] changed although the reported error is {errs[j]} (threshold {thr})'
        for leaf in jax.tree_util.tree_leaves(sn.preconditioners[j]):
          if not np.all(np.isfinite(np.asarray(leaf, np.float64))):
            return f'step {step}: {key}.preconditioners[{j}] became non-finite'
      if step % q != 0 and bits(so.training_metrics) != bits(sn.training_metrics):
        return f'step {step}: metrics of {key} changed although {step} % {q} != 0'
    state = new
  return None


def concrete(t, seed):
  import subprocess, sys, os
  out = subprocess.run([sys.executable, '-c', REPLAY_SRC, json.dumps(t), str(seed)], capture_output=True, text=True,
                       env=dict(os.environ))
  try:
    return json.loads(out.stdout.strip().splitlines()[-1])
  except Exception:
    return None


def confirm(t):
  for seed in range(4):
    what = concrete(t, seed)
    if what:
      path = write_replay(PID, dict(property=PID, task=t, seed=seed, observed=what))
      key = f"C03:{t['mode']}:" + ('blend' if t['mode'] == 'sharded' else 'gate')
      return dict(key=key, what=what, replay=path)
  return None


def replay(path):
  d = json.load(open(path))
  what = g4_concrete(d['task']) if d['task'].get('kind') == 'g4' else concrete(d['task'], d['seed'])
  if what:
    print(f'VIOLATION property={PID} replay={path}')
    print('  ' + what)
    return 1
  print('replay: acceptance gate behaved')
  return 0


def run(rep):
  rep.explanation = (
      'Bit-precise FP32 (QF_FP) verification of the acceptance gate on the real update jaxprs (replicated, pmap+int16-quantized, '
      'sharded): root outputs and reported errors are unconstrained float32 (NaN, +-Inf, any value; contract: error is NaN or >= 0), '
      'stored state and gradients arbitrary float32; z3 proves for all of them and every step index: G1/G3 each stored preconditioner '
      'is bit-for-bit the old one or the new root with a finite error strictly below the threshold (quantized: all three stored parts '
      'unchanged unless accepted), G2 preconditioners and every metric leaf bit-identical when count % q != 0.  G4 (zero-gradient case '
      'of the finiteness clause): from every finite state bounded by 2^40 with non-negative accumulators and finite roots, a zero '
      'gradient yields a finite update - full FP32 cone without abstraction; best-effort (an undecided attempt is reported as such).')
  rep.encode('precondition.distributed_shampoo._pmap_compute_preconditioners/_pmap_quantized_compute_preconditioners/_skip/'
             '_select_preconditioner/_update_preconditioners_fn/efficient_cond/sharded_update_fn/_add_metrics_into_local_stats',
             'precondition/distributed_shampoo.py')
  ts = tasks(rep.tier)
  rep.bounds = dict(tasks=len(ts), thresholds=THRS, matrix_epsilon=[0.0, 2.0 ** -20], modes=['replicated', 'quantized(pmap, D=1)', 'sharded(D=2 declared)'],
                    q=sorted({t['q'] for t in ts}), shapes=sorted({str(t['shapes']) for t in ts}), step_counter='symbolic',
                    floats='all float32 bit patterns for roots, errors, old state, gradients')
  rep.stubs = ['matrix_inverse_pth_root -> unconstrained float32 outputs (root any bits; error NaN or >= 0)',
               'cone cut: floating-point arithmetic sub-terms feeding the gate are replaced by fresh float32 values (over-approximation)']
  rep.assumptions = ['reported error is NaN or non-negative (it is a maximum of absolute values)',
                     'accepted error implies finite root is a property of the root routine (C01), not of the gate']
  rep.outside = ['finiteness of the update for non-zero moderate gradients (1e-12..1e12): needs range analysis through the root (only the zero-gradient case G4 is encoded)',
                 'Newton/eigh choice (inside the stub)']
  run_tasks('vp.props.c03', 'work', ts, report=rep)
