"""Independent reference model of one Distributed-Shampoo update, written over SMT
terms from the documentation / paper (no JAX).  Shares only the evaluator's sqrt
constructor and the ROOT/ERR uninterpreted symbols with the code side."""
from fractions import Fraction
import itertools
import numpy as np
import z3

from ..symjax import real as R
from ..symjax.stubs import root_uf
from ..harness import f32

EPS25 = f32(1e-25)


def ref_merge(shape, limit):
  shape = list(shape)
  if shape and all(d == 1 for d in shape):
    return [1]
  out, prod = [], 1
  for d in shape:
    if prod * d <= limit:
      prod *= d
    else:
      if prod > 1:
        out.append(prod)
      prod = d
  if prod > 1:
    out.append(prod)
  return out


def ref_blocks(tshape, b):
  """list of per-axis (start, stop) ranges, and the row-major list of blocks"""
  per_axis = []
  for d in tshape:
    if 0 < b < d:
      per_axis.append([(s, min(s + b, d)) for s in range(0, d, b)])
    else:
      per_axis.append([(0, d)])
  return [tuple(t) for t in itertools.product(*per_axis)]


def precond_axes(rank, ptype):
  if ptype == 'ALL' or rank <= 1:
    return list(range(rank))
  if ptype == 'INPUT':
    return list(range(rank - 1))
  return [rank - 1]


def arr(shape, fill=None):
  a = np.empty(tuple(shape), dtype=object)
  if fill is not None:
    for idx in np.ndindex(a.shape):
      a[idx] = fill
  return a


def vsum(xs):
  acc = Fraction(0)
  for x in xs:
    acc = R.s_add(acc, x)
  return acc


def norm(I, a):
  return I.sqrt(vsum(R.s_mul(x, x) for x in np.asarray(a, dtype=object).reshape(-1)))


def emap(f, *arrs):
  out = arr(arrs[0].shape)
  for idx in np.ndindex(out.shape):
    out[idx] = f(*[a[idx] for a in arrs])
  return out


def gram(block, axis):
  """G G^T over all axes but `axis`"""
  n = block.shape[axis]
  m = np.moveaxis(block, axis, 0).reshape(n, -1)
  out = arr((n, n))
  for i in range(n):
    for j in range(n):
      out[i, j] = vsum(R.s_mul(m[i, k], m[j, k]) for k in range(m.shape[1]))
  return out


def contract(block, P, axis):
  """out[..., i_axis, ...] = sum_k block[..., k, ...] * P[k, i]"""
  n = block.shape[axis]
  mv = np.moveaxis(block, axis, 0)
  out = arr((P.shape[1],) + mv.shape[1:])
  for i in range(P.shape[1]):
    for rest in np.ndindex(mv.shape[1:]):
      out[(i,) + rest] = vsum(R.s_mul(mv[(k,) + rest], P[k, i]) for k in range(n))
  return np.moveaxis(out, 0, axis)


class DSRef:
  """One update of Distributed Shampoo for a single parameter."""

  def __init__(self, c, shape, I):
    self.c, self.shape, self.I = c, tuple(shape), I
    self.tshape = tuple(ref_merge(shape, c['merge_block'])) if c['merge'] else tuple(shape)
    self.blocks = ref_blocks(self.tshape, c['block_size'])
    self.rank = len(self.tshape)
    self.axes = precond_axes(self.rank, c['ptype'])
    self.skip = len(shape) < c['skip_rank_lt'] or any(d > c['skip_dim_gt'] for d in shape)
    self.exponent = c['exponent_override'] if c['exponent_override'] else 2 * len(self.axes)
    self.nstat = 0 if self.skip else len(self.blocks) * len(self.axes)

  def block_of(self, t, blk):
    return t[tuple(slice(a, b) for a, b in blk)]

  def lr(self, count):
    if self.c['lr_schedule']:
      return R.s_div(f32(0.125), R.s_add(Fraction(1), z3.ToReal(count) if R.is_z3(count) else Fraction(count)))
    return f32(self.c['lr'])

  def step_on(self, count, interval):
    if interval == 1:
      return True
    return R.s_eq(R.s_irem(count, interval), 0)

  def statistics(self, g, stats, count):
    """new statistics list"""
    c = self.c
    if self.skip:
      return list(stats)
    b2 = f32(c['beta2'])
    w2 = b2 if c['beta2'] == 1.0 else f32(1.0 - c['beta2'])
    gt = g.reshape(self.tshape)
    on = self.step_on(count, c['s'])
    out = []
    k = 0
    for blk in self.blocks:
      gb = self.block_of(gt, blk)
      for ax in self.axes:
        G = gram(gb, ax)
        new = emap(lambda s, x: R.s_add(R.s_mul(b2, s), R.s_mul(w2, x)), stats[k], G)
        out.append(emap(lambda n, o: R.s_if(on, n, o), new, stats[k]))
        k += 1
    return out

  def preconditioners(self, new_stats, pre, old_err, count, use_new_stats=True):
    """(new preconditioners, new error metrics, list of (root, err) per statistic)"""
    c = self.c
    on = self.step_on(count, c['q'])
    thr = f32(c['thr'])
    outP, outE, roots = [], [], []
    for k in range(self.nstat):
      S = new_stats[k]
      root, err = root_uf(S, self.exponent)
      accept = R.s_and(on, R.s_not(R.s_ge(err, thr)))
      outP.append(emap(lambda r, o: R.s_if(accept, r, o), root, pre[k]))
      outE.append(R.s_if(on, err, old_err[k]) if old_err is not None else None)
      roots.append((root, err))
    return outP, outE, roots

  def precondition(self, g, pre):
    if self.skip:
      return None
    gt = g.reshape(self.tshape)
    out = arr(self.tshape)
    k = 0
    for blk in self.blocks:
      gb = self.block_of(gt, blk)
      for ax in self.axes:
        gb = contract(gb, pre[k], ax)
        k += 1
      out[tuple(slice(a, b) for a, b in blk)] = gb
    return out.reshape(self.shape)

  def graft(self, g, diag):
    """(grafting step before lr coupling, new diagonal statistics)"""
    c, I = self.c, self.I
    t = c['graft']
    eps = f32(c['diagonal_epsilon'])
    if t in ('SGD', 'NONE'):
      return g, diag
    if t == 'SQRT_N':
      return emap(R.s_sign, g), diag
    sg = g
    if t.endswith('NORMALIZED'):
      n = norm(I, g)
      sg = emap(lambda x: R.s_div(x, R.s_add(n, EPS25)), g)
    if t.startswith('ADAGRAD'):
      nd = emap(lambda d, x: R.s_add(d, R.s_mul(x, x)), diag, sg)
    else:
      b2 = f32(c['beta2'])
      w2 = b2 if c['beta2'] == 1.0 else f32(1.0 - c['beta2'])
      nd = emap(lambda d, x: R.s_add(R.s_mul(b2, d), R.s_mul(w2, R.s_mul(x, x))), diag, sg)
    step = emap(lambda x, d: R.s_div(x, R.s_add(I.sqrt(d), eps)), sg, nd)
    return step, nd

  def transform(self, g, p, count, pre, diag, mom, dmom):
    """returns dict(update, diag, mom, dmom, pg, graft)"""
    c, I = self.c, self.I
    lr = self.lr(count)
    graft, nd = self.graft(g, diag)
    if not c['decoupled_lr']:
      graft = emap(lambda x: R.s_mul(x, lr), graft)
    pg = self.precondition(g, pre)
    if pg is None:
      pg = graft
    if c['graft'] != 'NONE':
      mult = R.s_div(norm(I, graft), R.s_add(norm(I, pg), EPS25))
      sh = emap(lambda x: R.s_mul(x, mult), pg)
    else:
      sh = pg
    wd = f32(c['weight_decay'])
    sh_wd, gr_wd = sh, graft
    if c['weight_decay'] != 0 and not c['decoupled_wd']:
      sh_wd = emap(lambda x, q: R.s_add(x, R.s_mul(wd, q)), sh, p)
      gr_wd = emap(lambda x, q: R.s_add(x, R.s_mul(wd, q)), graft, p)
    b1 = f32(c['beta1'])
    w = f32(1.0 - c['beta1']) if c['moving_average'] else Fraction(1)
    m_s = emap(lambda m, x: R.s_add(R.s_mul(m, b1), R.s_mul(w, x)), mom, sh_wd)
    m_g = emap(lambda m, x: R.s_add(R.s_mul(m, b1), R.s_mul(w, x)), dmom, gr_wd)
    run = R.s_ge(count, c['start'])
    momu = emap(lambda a, b: R.s_if(run, a, b), m_s, m_g)
    wdu = emap(lambda a, b: R.s_if(run, a, b), sh_wd, gr_wd)
    out = momu
    if c['nesterov']:
      out = emap(lambda x, m: R.s_add(R.s_mul(w, x), R.s_mul(b1, m)), wdu, momu)
    if c['weight_decay'] != 0 and c['decoupled_wd']:
      wl = Fraction(1) if c['decoupled_lr'] else lr
      out = emap(lambda x, q: R.s_add(x, R.s_mul(R.s_mul(wl, wd), q)), out, p)
    mm = lr if c['decoupled_lr'] else Fraction(1)
    upd = emap(lambda x: R.s_mul(R.s_neg(mm), x), out)
    return dict(update=upd, diag=nd, mom=m_s, dmom=m_g, pg=pg, graft=graft, sh=sh, run=run)
