"""C16 — OCO algorithms match closed forms; sketched methods keep the FD step identities.

One inductive step from an arbitrary state on the jaxpr of each real update function
(delta, lr symbolic; svd stubbed).  The clause "lossless S-AdaGrad = full-matrix
AdaGrad" needs a matrix-function identity modulo orthonormality on which z3 returns
unknown (DESIGN.md O4): declined; what is claimed for it is O2 (alpha stays delta when
rho = 0) and O3 (the step is the documented eigen-form).
"""
from fractions import Fraction
import json
import time
import numpy as np
import z3
import jax
import jax.numpy as jnp

from ..symjax import Interp, Ctx, toobj, sym_like, stubs
from ..symjax import real as R
from ..solve import Prover, zl
from ..report import run_tasks, write_replay
from .ds_ref import arr, emap, vsum

PID = 'C16'


def tasks(tier):
  out = [dict(algo='OGD', d=2), dict(algo='OGD', d=3), dict(algo='ADA', d=2), dict(algo='ADA', d=3)]
  for a in ('S_ADA', 'ADA_FD', 'FD_SON', 'RFD_SON'):
    out.append(dict(algo=a, d=3, k=2))
    if tier == 'thorough':
      out += [dict(algo=a, d=4, k=2), dict(algo=a, d=4, k=3), dict(algo=a, d=2, k=2)]
  if tier == 'thorough':
    out += [dict(algo='OGD', d=4), dict(algo='ADA', d=4)]
  return out


def sq(x):
  return R.s_mul(x, x)


def work(t):
  from precondition.oco import algorithms as alg
  t0_ = time.time()
  algo = getattr(alg.Algorithm, t['algo'])
  d = t['d']
  k = t.get('k', 0)
  tag = f"{t['algo']}|d={d}" + (f'|sketch={k}' if k else '')
  P = Prover(timeout_s=40, first_s=3.0)
  ctx = Ctx()
  I = Interp(ctx)

  def run(fn, ex, names):
    jp, out_shape = jax.make_jaxpr(fn, return_shape=True)(*ex)
    sym = [sym_like(n, x) for n, x in zip(names, ex)]
    outs = I.eval(jp.jaxpr, jp.consts, *sym)
    return sym, jax.tree_util.tree_unflatten(jax.tree_util.tree_structure(out_shape), outs)

  if t['algo'] == 'OGD':
    def fn(delta, lr, w, tt, g):
      hp = alg.HParams(delta=delta, lr=lr, sketch_size=0, algorithm=algo)
      _, upd = alg.generate_init_update((d,), hp)
      return upd({'w': w, 't': tt}, jnp.zeros(()), g)
    (delta, lr, w, tt, g), new = run(fn, [jnp.zeros(()), jnp.zeros(()), jnp.zeros((d,)), jnp.zeros(()), jnp.zeros((d,))], ['delta', 'lr', 'w', 't', 'g'])
    t1 = R.s_add(tt.item(), Fraction(1))
    P.equal(f'{tag}|O1 t\' = t + 1', np.array([new['t'].item()], dtype=object), np.array([t1], dtype=object))
    want = emap(lambda wi, gi: R.s_sub(wi, R.s_mul(R.s_mul(lr.item(), gi), R.s_div(1, I.sqrt(R.s_add(t1, delta.item()))))), w, g)
    P.equal(f'{tag}|O1 w\' = w - lr * g / sqrt(t\' + delta)  (closed form by induction: w_T = -lr sum_t g_t / sqrt(t + delta))', new['w'], want)
    init, _ = alg.generate_init_update((d,), alg.HParams(delta=0.5, lr=0.25, sketch_size=0, algorithm=algo))
    s0 = init()
    ok = float(s0['t']) == 0.0 and not np.any(np.asarray(s0['w']))
    P.results.append(dict(name=f'{tag}|O1 base: init has w = 0, t = 0', kind='core', queries=0, status='unsat' if ok else 'sat'))
    P.reach(f'{tag}|twin', [zl(lr.item()) > 0], [zl(g[0]) != 0])
  elif t['algo'] == 'ADA':
    def fn(delta, lr, w, h, g):
      hp = alg.HParams(delta=delta, lr=lr, sketch_size=0, algorithm=algo)
      _, upd = alg.generate_init_update((d,), hp)
      return upd({'w': w, 'diag_h': h}, jnp.zeros(()), g)
    (delta, lr, w, h, g), new = run(fn, [jnp.zeros(()), jnp.zeros(()), jnp.zeros((d,)), jnp.zeros((d,)), jnp.zeros((d,))], ['delta', 'lr', 'w', 'h', 'g'])
    h1 = emap(lambda hi, gi: R.s_add(hi, sq(gi)), h, g)
    P.equal(f'{tag}|O1 h\' = h + g^2  (closed form: h_T = delta + sum g_t^2)', new['diag_h'], h1)
    want = emap(lambda wi, gi, hi: R.s_sub(wi, R.s_mul(R.s_mul(R.s_div(1, I.sqrt(R.s_if(R.s_eq(hi, 0), Fraction(1), hi))), gi), lr.item())), w, g, h1)
    P.equal(f'{tag}|O1 w\' = w - lr * g / sqrt(h\')  (h\' = 0 guarded)', new['w'], want)
    init, _ = alg.generate_init_update((d,), alg.HParams(delta=0.5, lr=0.25, sketch_size=0, algorithm=algo))
    s0 = init()
    ok = np.all(np.asarray(s0['diag_h']) == 0.5) and not np.any(np.asarray(s0['w']))
    P.results.append(dict(name=f'{tag}|O1 base: init has w = 0, h = delta', kind='core', queries=0, status='unsat' if ok else 'sat'))
    P.reach(f'{tag}|twin', [zl(lr.item()) > 0], [zl(g[0]) != 0])
  else:
    def fn(delta, lr, w, tt, al, Pm, e, g):
      hp = alg.HParams(delta=delta, lr=lr, sketch_size=k, algorithm=algo)
      _, upd = alg.generate_init_update((d,), hp)
      return upd({'w': w, 't': tt, 'alpha': al, 'P': Pm, 'e': e}, jnp.zeros(()), g)
    ex = [jnp.zeros(()), jnp.zeros(()), jnp.zeros((d,)), jnp.zeros(()), jnp.zeros(()), jnp.zeros((k, d)), jnp.zeros((k,)), jnp.zeros((d,))]
    (delta, lr, w, tt, al, Pm, e, g), new = run(fn, ex, ['delta', 'lr', 'w', 't', 'alpha', 'P', 'e', 'g'])
    rec = [r for r in ctx.decomps if r['kind'] == 'svd'][0]
    s, Vt = rec['s'], rec['Vt']
    pre = [zl(al.item()) >= 0, zl(tt.item()) >= 0, zl(lr.item()) > 0] + [zl(x) >= 0 for x in e]
    facts = stubs.svd_facts(rec, 'order')
    rho = s[k - 1]
    t1 = R.s_add(tt.item(), Fraction(1))
    factor = {'S_ADA': Fraction(1), 'RFD_SON': Fraction(1, 2), 'FD_SON': Fraction(0), 'ADA_FD': Fraction(0)}[t['algo']]
    a1 = R.s_add(al.item(), R.s_mul(factor, sq(rho)))
    P.equal(f'{tag}|O2 t\' = t + 1', np.array([new['t'].item()], dtype=object), np.array([t1], dtype=object), pre + facts)
    P.prove(f'{tag}|O2 last sketch row eigenvalue is zero', zl(new['e'][k - 1]) == 0, pre + facts)
    P.equal(f'{tag}|O2 alpha\' = alpha + {factor} * rho^2' + (' (S-AdaGrad: alpha = delta + accumulated escaped mass by induction)' if t['algo'] == 'S_ADA' else ''),
            np.array([new['alpha'].item()], dtype=object), np.array([a1], dtype=object), pre + facts,
            kind='core' if t['algo'] == 'S_ADA' else 'stretch')      # the property pins the diagonal term of S-AdaGrad only
    for i in range(k):
      P.prove(f'{tag}|O2 e\'_{i}^2 = s_{i}^2 - rho^2, e\'_{i} >= 0',
              z3.And(zl(sq(new['e'][i])) == zl(R.s_mul(R.s_sub(s[i], rho), R.s_add(s[i], rho))), zl(new['e'][i]) >= 0), pre + facts)
    P.equal(f'{tag}|O2 P\' = V^T', new['P'], Vt, pre + facts)
    if t['algo'] == 'S_ADA':
      P.prove(f'{tag}|O2 lossless step (rho = 0) leaves the diagonal term unchanged', zl(new['alpha'].item()) == zl(al.item()), pre + facts + [zl(rho) == 0])
      init, _ = alg.generate_init_update((d,), alg.HParams(delta=0.5, lr=0.25, sketch_size=k, algorithm=algo))
      s0 = init()
      ok = float(s0['alpha']) == 0.5 and not np.any(np.asarray(s0['P'])) and not np.any(np.asarray(s0['e']))
      P.results.append(dict(name=f'{tag}|O2 base: init has alpha = delta, empty sketch', kind='core', queries=0, status='unsat' if ok else 'sat'))
    # O3 documented step over the stub outputs
    Pg = [vsum(R.s_mul(Vt[i, j], g[j]) for j in range(d)) for i in range(k)]
    sdef = [R.s_mul(R.s_sub(s[i], rho), R.s_add(s[i], rho)) for i in range(k)]
    def safe(x, f):
      return R.s_if(R.s_le(x, 0), Fraction(0), f(x))
    if t['algo'] == 'ADA_FD':
      en = [new['e'][i] for i in range(k)]
      dd = [R.s_div(en[i], R.s_add(a1, en[i])) for i in range(k)]
      upd = [R.s_mul(R.s_sub(g[j], vsum(R.s_mul(Vt[i, j], R.s_mul(dd[i], Pg[i])) for i in range(k))), safe(a1, lambda x: R.s_div(1, x))) for j in range(d)]
      lr_eff = lr.item()
    else:
      inv = (lambda x: R.s_div(1, I.sqrt(x))) if t['algo'] == 'S_ADA' else (lambda x: R.s_div(1, x))
      inv_s = [safe(R.s_add(a1, sdef[i]), inv) for i in range(k)]
      inv_a = safe(a1, inv)
      upd = [R.s_add(vsum(R.s_mul(Vt[i, j], R.s_mul(inv_s[i], Pg[i])) for i in range(k)),
                     R.s_mul(inv_a, R.s_sub(g[j], vsum(R.s_mul(Vt[i, j], Pg[i]) for i in range(k))))) for j in range(d)]
      lr_eff = lr.item() if t['algo'] == 'S_ADA' else Fraction(1)
    want = np.array([R.s_sub(w[j], R.s_mul(lr_eff, upd[j])) for j in range(d)], dtype=object)
    name = {'S_ADA': 'w\' = w - lr [V (alpha\' + s^2 - rho^2)^(-1/2) V^T g + alpha\'^(-1/2) (g - V V^T g)]',
            'ADA_FD': 'w\' = w - lr (g - V (e\'/(alpha + e\')) V^T g) / alpha',
            'FD_SON': 'w\' = w - [V (alpha + s^2 - rho^2)^(-1) V^T g + alpha^(-1) (g - V V^T g)]',
            'RFD_SON': 'w\' = w - [V (alpha\' + s^2 - rho^2)^(-1) V^T g + alpha\'^(-1) (g - V V^T g)]'}[t['algo']]
    splits = [zl(a1) <= 0] + [zl(R.s_add(a1, sdef[i])) <= 0 for i in range(k)]
    if t['algo'] == 'S_ADA':
      # what the property states: in the lossless regime (rho = 0, so alpha stays delta > 0) the step is that of full-matrix AdaGrad
      P.equal(f'{tag}|O3 lossless regime (rho = 0, alpha > 0): {name}', new['w'], want, pre + facts + [zl(rho) == 0, zl(al.item()) > 0], split=splits)
    # the documented step in every regime is more than the property says about the iterates: reported, not counted
    P.equal(f'{tag}|O3 {name}', new['w'], want, pre + facts, split=splits, kind='stretch')
    P.reach(f'{tag}|twin: satisfiable with rho > 0', pre + facts, [zl(rho) > 0])
  res, viol = [], []
  confirmed = None
  for rr in P.results:
    rr = dict(rr)
    if rr['status'] in ('sat', 'unknown') and rr.get('kind', 'core') == 'core':
      if confirmed is None:
        confirmed = concrete(t) or False
      if confirmed:
        rr['status'] = 'violation'
        path = write_replay(PID, dict(property=PID, task=t, observed=confirmed))
        viol.append(dict(key=f"C16:{t['algo']}:{rr['name'].split('|')[-1].split(' ')[0]}", what=confirmed, replay=path))
      elif rr['status'] == 'sat':
        rr['status'] = 'spurious'
        rr['note'] = 'candidate counterexample did not reproduce on the real code'
    res.append(rr)
  return dict(results=res, violations=viol, errors=[], configs=1, samples=[dict(task=t)], extra=dict(eval_s=round(time.time() - t0_, 2)))


def concrete(t, T=6):
  """iterate the real update over a gradient history; compare with closed forms in float64"""
  from precondition.oco import algorithms as alg
  algo = getattr(alg.Algorithm, t['algo'])
  d, k = t['d'], t.get('k', 0)
  delta, lr = 0.5, 0.25
  hp = alg.HParams(delta=delta, lr=lr, sketch_size=k, algorithm=algo)
  init, upd = alg.generate_init_update((d,), hp)
  for seed, lowrank_hist in ((0, False), (1, False), (0, True)):
    if lowrank_hist and t['algo'] != 'S_ADA':
      continue
    rng = np.random.RandomState(seed)
    st = init()
    w = np.zeros(d)
    h = np.full(d, delta)
    alpha = delta
    lowrank = rng.randn(max(k - 1, 1), d)
    full = np.zeros((d, d))
    for step in range(1, T + 1):
      g = rng.randn(max(k - 1, 1)) @ lowrank if lowrank_hist else rng.randn(d)   # lossless: history of rank < sketch size
      prev = {kk: np.asarray(v, np.float64) for kk, v in st.items()}
      st = upd(dict(st), jnp.zeros(()), jnp.asarray(g))
      if t['algo'] == 'OGD':
        w = w - lr * g / np.sqrt(step + delta)
        if not np.allclose(np.asarray(st['w']), w, rtol=1e-4, atol=1e-6) or float(st['t']) != step:
          return f'step {step}: OGD iterate {np.asarray(st["w"])} != closed form {w} (t = {float(st["t"])})'
      elif t['algo'] == 'ADA':
        h = h + g * g
        w = w - lr * g / np.sqrt(h)
        if not np.allclose(np.asarray(st['w']), w, rtol=1e-4, atol=1e-6) or not np.allclose(np.asarray(st['diag_h']), h, rtol=1e-5):
          return f'step {step}: diagonal AdaGrad iterate {np.asarray(st["w"])} != closed form {w}'
      else:
        B = prev['P'] * prev['e'].reshape(-1, 1)
        scale = {'S_ADA': 1.0, 'ADA_FD': 1.0, 'RFD_SON': 1 / np.sqrt(step * lr), 'FD_SON': 1 / np.sqrt(np.sqrt(step) * lr)}[t['algo']]
        B[-1] = g * scale
        _, s, Vt = np.linalg.svd(B, full_matrices=False)
        fac = {'S_ADA': 1.0, 'RFD_SON': 0.5, 'FD_SON': 0.0, 'ADA_FD': 0.0}[t['algo']]
        alpha = alpha + fac * s[-1] ** 2
        if abs(float(st['alpha']) - alpha) > 1e-4 * (1 + alpha):
          return f'step {step}: diagonal term {float(st["alpha"])} != delta + accumulated escaped mass {alpha}'
        if abs(float(st['e'][-1])) > 1e-5:
          return f'step {step}: last sketch row eigenvalue {float(st["e"][-1])} != 0'
        sdef = np.maximum(s ** 2 - s[-1] ** 2, 0)
        if not np.allclose(np.asarray(st['e'], np.float64), np.sqrt(sdef), rtol=1e-3, atol=1e-5):
          return f'step {step}: sketch eigenvalues {np.asarray(st["e"])} != sqrt(s^2 - rho^2)'
        # O3: documented step from the previous iterate
        Pg = Vt @ g
        if t['algo'] == 'ADA_FD':
          e1 = np.sqrt(sdef)
          upd_ = (g - Vt.T @ ((e1 / (alpha + e1)) * Pg)) / alpha
          lre = lr
        else:
          inv = (lambda x: x ** -0.5) if t['algo'] == 'S_ADA' else (lambda x: 1.0 / x)
          upd_ = Vt.T @ (inv(alpha + sdef) * Pg) + inv(alpha) * (g - Vt.T @ Pg)
          lre = lr if t['algo'] == 'S_ADA' else 1.0
        want_w = prev['w'] - lre * upd_
        if not np.allclose(np.asarray(st['w'], np.float64), want_w, rtol=2e-3, atol=1e-5):
          return f'step {step}: {t["algo"]} iterate {np.asarray(st["w"])} != documented step {want_w}'
        if lowrank_hist:
          full += np.outer(g, g)
          ev, U = np.linalg.eigh(full + delta * np.eye(d))
          w = w - lr * (U * ev ** -0.5) @ U.T @ g
          if not np.allclose(np.asarray(st['w']), w, rtol=2e-3, atol=1e-5):
            return f'step {step}: lossless S-AdaGrad iterate {np.asarray(st["w"])} != full-matrix AdaGrad {w}'
  return None


def replay(path):
  d = json.load(open(path))
  what = concrete(d['task'])
  if what:
    print(f'VIOLATION property={PID} replay={path}')
    print('  ' + what)
    return 1
  print('replay: OCO iterates match the closed forms')
  return 0


def run(rep):
  rep.explanation = (
      'Bounded SMT verification (exact reals; delta and lr symbolic) of one inductive step of each real OCO update: O1 OGD and '
      'diagonal AdaGrad satisfy t\'=t+1, w\'=w-lr g rsqrt(t\'+delta) and h\'=h+g^2, w\'=w-lr g rsqrt(h\') (closed forms follow by induction '
      'from the checked init); O2 every sketched method keeps its last sketch row zero, e\'^2 = s^2 - rho^2 >= 0, P\' = V^T, and '
      'alpha\' = alpha + factor*rho^2 with factor 1 / 1/2 / 0 / 0 (S-AdaGrad: alpha = delta + accumulated escaped mass; unchanged when '
      'rho = 0); O3 each step equals its documented eigen-form over the SVD outputs.')
  rep.encode('precondition.oco.algorithms.generate_init_update/_ogd_update_fn/_diag_adagrad_update_fn/_fd_update_fn/_fd_method_factors',
             'precondition/oco/algorithms.py')
  ts = tasks(rep.tier)
  rep.bounds = dict(tasks=len(ts), dimension=sorted({t['d'] for t in ts}), sketch=sorted({t.get('k', 0) for t in ts}),
                    algorithms=sorted({t['algo'] for t in ts}), history='one step from an arbitrary state; delta, lr symbolic')
  rep.stubs = ['svd -> fresh (s, V^T) with s descending, non-negative', 'sqrt uninterpreted with per-term axioms']
  rep.assumptions = ['exact real arithmetic', 'SVD ordering contract']
  rep.outside = ['lossless S-AdaGrad == full-matrix AdaGrad as a matrix identity (z3 unknown; checked only numerically in replays)',
                 'the FD bracket for the OCO sketch (C09 lemma)']
  run_tasks('vp.props.c16', 'work', ts, report=rep)
