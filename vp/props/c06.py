"""C06 — merging, blocking, blockifying and padding are lossless and self-consistent.

(a) index bookkeeping with SYMBOLIC dimensions: the real Python functions are executed
    on integer proxies (forking path-wise symbolic execution, E2); every feasible path
    ends in solver-checked postconditions.
(b) element order with SYMBOLIC contents: for every concrete shape up to the bound the
    jaxpr of the composite is evaluated on an array of distinct uninterpreted
    constants (E1) and the goals are decided by the solver.
"""
import itertools
import json
import math
import time
import types
import numpy as np
import z3
import jax
import jax.numpy as jnp

from ..pysym import engine as PE
from ..pysym.engine import SymInt, SymBool, term
from ..symjax import Interp, Ctx, toobj, sym_like
from ..symjax import real as R
from ..solve import Prover, zl
from ..report import run_tasks, write_replay

PID = 'C06'


def zprod(xs):
  out = z3.IntVal(1)
  for x in xs:
    out = out * term(x)
  return out


class Shape:
  """stand-in for an array: only `.shape` is read by the bookkeeping code"""

  def __init__(self, shape):
    self.shape = tuple(shape)


# ----------------------------------------------------------------- (a) pysym tasks
def a_tasks(tier):
  B = 5 if tier == 'quick' else 8
  out = []
  for r in range(0, 4 if tier == 'quick' else 5):
    out.append(dict(part='a', fn='merge_small_dims', rank=r, B=B if r < 4 else 5))
  for r in range(0, 4 if tier == 'quick' else 5):
    out.append(dict(part='a', fn='partitioner', rank=r, B=B if r < 4 else 5))
  for r in range(1, 4):
    for ptype in ('ALL', 'INPUT', 'OUTPUT'):
      for cr in ((0, 1) if tier == 'quick' else (0, 1, -1, 2, -2)):
        out.append(dict(part='a', fn='preconditioner', rank=r, B=(5 if r < 3 else 4) if tier == 'quick' else (8 if r < 3 else 5),
                        ptype=ptype, compression_rank=cr))
  for r in range(1, 4 if tier == 'quick' else 5):
    out.append(dict(part='a', fn='tf_blocks_metadata', rank=r, B=B if r < 4 else 5))
    out.append(dict(part='a', fn='tf_derive_shapes', rank=r, B=B if r < 4 else 5))
  return out


def run_paths(fn, base, post, maxpaths=200000):
  """explore all paths of fn(); post(result) -> list of (name, z3 goal).  Returns stats and failures."""
  E = PE.E
  E.__init__()
  E.base = list(base)
  npaths, nchecks, fails, excs = 0, 0, [], []
  t0 = time.time()
  for pc, (kind, val) in E.explore(fn, maxpaths):
    npaths += 1
    if kind == 'exc':
      r, m = E.valid(pc, z3.BoolVal(False))   # is the path feasible? then the exception is reachable
      if r == 'sat':
        excs.append((f'{type(val).__name__}: {val}', m))
      continue
    for name, goal in post(val):
      nchecks += 1
      if goal is True:
        continue
      if goal is False:
        goal = z3.BoolVal(False)
      r, m = E.valid(pc, goal)
      if r != 'unsat':
        fails.append((name, r, m))
  return dict(paths=npaths, checks=nchecks, fails=fails, excs=excs, queries=E.queries, solver_s=E.solver_s, wall=time.time() - t0)


def model_ints(m, syms):
  out = []
  for s in syms:
    v = m.eval(term(s), model_completion=True)
    out.append(v.as_long())
  return out


def a_work(t):
  from precondition import distributed_shampoo as ds
  fn, r, B = t['fn'], t['rank'], t['B']
  dims = [SymInt(z3.Int(f'd{i}')) for i in range(r)]
  base = [z3.And(term(d) >= 1, term(d) <= B) for d in dims]
  tag = f"(a) {fn}|rank={r}|B={B}" + ''.join(f'|{k}={t[k]}' for k in ('ptype', 'compression_rank') if k in t)
  results, viol = [], []
  syms = list(dims)

  def conclude(name, stats, replay_fn):
    st = 'unsat'
    note = f"{stats['paths']} paths, {stats['checks']} postconditions, {stats['queries']} solver queries"
    for nm, rr, m in stats['fails']:
      if rr != 'sat':
        st = 'unknown'
        note += f'; {nm}: solver {rr}'
        continue
      vals = model_ints(m, syms)
      what = replay_fn(vals, nm)
      if what:
        path = write_replay(PID, dict(property=PID, task=t, inputs=vals, observed=what, post=nm))
        viol.append(dict(key=f'C06:{fn}:{nm}', what=what, replay=path))
        st = 'violation'
      elif st == 'unsat':
        st = 'spurious'
        note += f'; {nm}: model {vals} did not reproduce'
    for msg, m in stats['excs']:
      vals = model_ints(m, syms)
      what = replay_fn(vals, 'exception')
      if what:
        path = write_replay(PID, dict(property=PID, task=t, inputs=vals, observed=what, post='exception'))
        viol.append(dict(key=f'C06:{fn}:exception:{msg.split(":")[0]}', what=what, replay=path))
        st = 'violation'
      elif st == 'unsat':
        st = 'spurious'
        note += f'; exception {msg} for {vals} did not reproduce'
    results.append(dict(name=name, status=st, kind='core', queries=stats['queries'], solver_s=round(stats['solver_s'], 3),
                        cases=stats['paths'], note=note))

  if fn == 'merge_small_dims':
    m = SymInt(z3.Int('maxdim'))
    syms.append(m)
    base.append(z3.And(term(m) >= 1, term(m) <= B * B))

    def post(res):
      res = list(res)
      goals = [('product preserved', zprod(res) == zprod(dims))]
      for j, x in enumerate(res):
        goals.append((f'merged dim {j} within the limit unless it is a single original dimension',
                      z3.Or([term(x) <= term(m)] + [term(x) == term(d) for d in dims])))
        goals.append((f'merged dim {j} positive', term(x) >= 1))
      L = len(res)
      if r and L:
        # order preserved: the result is the list of products of consecutive runs
        opts = []
        for cuts in itertools.combinations(range(1, r), L - 1):
          ks = (0,) + cuts + (r,)
          opts.append(z3.And([term(res[j]) == zprod(dims[ks[j]:ks[j + 1]]) for j in range(L)]))
        goals.append(('merged dims are products of consecutive runs (order preserved)', z3.Or(opts) if opts else z3.BoolVal(False)))
      if r == 0:
        goals.append(('empty shape stays empty', L == 0))
      return goals

    def replay_fn(vals, nm):
      shape, mx = vals[:r], vals[r]
      try:
        res = ds.merge_small_dims(shape, mx)
      except Exception as ex:
        return f'merge_small_dims({shape}, {mx}) raises {type(ex).__name__}: {ex}'
      if math.prod(res) != math.prod(shape):
        return f'merge_small_dims({shape}, {mx}) = {res}: element count changes'
      if any(x > mx and x not in shape for x in res):
        return f'merge_small_dims({shape}, {mx}) = {res}: merged dimension exceeds the limit'
      # order: greedy consecutive partition
      i = 0
      for x in res:
        p = 1
        while i < len(shape) and (p != x or (i < len(shape) and shape[i] == 1 and False)):
          p *= shape[i]
          i += 1
          if p == x:
            break
        if p != x:
          return f'merge_small_dims({shape}, {mx}) = {res}: not products of consecutive runs'
      return None

    conclude(f'{tag}|all paths: product preserved, limit respected, order preserved',
             run_paths(lambda: ds.merge_small_dims(list(dims), m), base, post), replay_fn)

  elif fn == 'partitioner':
    b = SymInt(z3.Int('block'))
    syms.append(b)
    base.append(z3.And(term(b) >= 0, term(b) <= B))

    def post(p):
      goals = []
      sizes = p.split_sizes()
      goals.append(('one size vector per axis', len(sizes) == r))
      splits = {i: idx for i, idx in p._splits}
      for i in range(min(r, len(sizes))):
        sz = list(sizes[i])
        d = term(dims[i])
        bb = term(b)
        goals.append((f'axis {i}: sizes sum to the dimension', z3.Sum([term(x) for x in sz]) == d if len(sz) > 1 else term(sz[0]) == d))
        blocked = z3.And(bb > 0, bb < d)
        goals.append((f'axis {i}: every block size in [1, block] when blocked', z3.Implies(blocked, z3.And([z3.And(term(x) >= 1, term(x) <= bb) for x in sz]))))
        goals.append((f'axis {i}: number of blocks is ceil(d / block) when blocked, 1 otherwise',
                      z3.If(blocked, z3.And((len(sz) - 1) * bb < d, len(sz) * bb >= d), z3.BoolVal(len(sz) == 1))))
        goals.append((f'axis {i}: all but the last block are full', z3.Implies(blocked, z3.And([term(x) == bb for x in sz[:-1]])) if len(sz) > 1 else True))
        if i in splits:
          idx = list(splits[i])
          goals.append((f'axis {i}: split indices are the multiples of block strictly below d',
                        z3.And([term(x) == (k + 1) * bb for k, x in enumerate(idx)] + [term(idx[-1]) < d] + [z3.BoolVal(len(idx) == len(sz) - 1)])))
        else:
          goals.append((f'axis {i}: no split recorded exactly when not blocked', z3.Not(blocked)))
      return goals

    def replay_fn(vals, nm):
      shape, bs = tuple(vals[:r]), vals[r]
      try:
        p = ds.BlockPartitioner(Shape(shape), bs)
      except Exception as ex:
        return f'BlockPartitioner(shape={shape}, block={bs}) raises {type(ex).__name__}: {ex}'
      for i, sz in enumerate(p.split_sizes()):
        sz = [int(x) for x in sz]
        d = shape[i]
        want = [bs] * (d // bs) + ([d % bs] if d % bs else []) if 0 < bs < d else [d]
        if sz != want:
          return f'BlockPartitioner(shape={shape}, block={bs}): axis {i} split sizes {sz}, expected {want}'
      return None

    conclude(f'{tag}|all paths: split indices / sizes / counts per axis',
             run_paths(lambda: ds.BlockPartitioner(Shape(dims), b), base, post), replay_fn)

  elif fn == 'preconditioner':
    b = SymInt(z3.Int('block'))
    syms.append(b)
    base.append(z3.And(term(b) >= 0, term(b) <= B))
    ptype = getattr(ds.PreconditionerType, t['ptype'])
    cr = t['compression_rank']

    def build():
      pc = object.__new__(ds.Preconditioner)
      pc._original_shape = tuple(dims)
      pc._transformed_shape = tuple(dims)
      pc._partitioner = ds.BlockPartitioner(Shape(dims), b)
      pc._preconditioner_type = ptype
      pc._compression_rank = cr
      shapes = pc.shapes_for_preconditioners()
      should = pc.should_precondition_dims()
      exponent = pc.exponent_for_preconditioner()
      sizes = pc._partitioner.split_sizes()
      blocks = list(itertools.product(*sizes))
      npc = sum(should)
      # what updated_statistics_from_grad / preconditioned_grad index, block by block
      slots = []
      for i in range(len(blocks)):
        got = pc._preconds_for_grad(list(range(len(shapes))), rank=len(should), start=i * npc, end=(i + 1) * npc)
        slots.append(got)
      return pc, shapes, should, exponent, blocks, slots

    def post(res):
      pc, shapes, should, exponent, blocks, slots = res
      goals = []
      axes = [i for i, s in enumerate(should) if s]
      want_axes = list(range(r)) if (t['ptype'] == 'ALL' or r <= 1) else (list(range(r - 1)) if t['ptype'] == 'INPUT' else [r - 1])
      goals.append(('preconditioned axes follow the preconditioner type', axes == want_axes))
      goals.append(('exponent = 2 x number of preconditioned axes', exponent == 2 * len(want_axes)))
      goals.append(('announced count = blocks x preconditioned axes', len(shapes) == len(blocks) * len(axes)))
      for bi, blk in enumerate(blocks):
        for jj, ax in enumerate(axes):
          k = bi * len(axes) + jj
          if k >= len(shapes):
            continue
          size = term(blk[ax])
          sh = shapes[k]
          comp = abs(cr) + 2
          want_pd = z3.If(z3.And(cr != 0, comp < size), z3.IntVal(comp), size) if cr else size
          goals.append((f'announced shape {k} = [block size of axis {ax}, precond dim]', z3.And(term(sh[0]) == size, term(sh[1]) == want_pd)))
          sc_ = ds._should_compress(cr, blk[ax])
          sc_t = term(sc_) if not isinstance(sc_, bool) else z3.BoolVal(sc_)
          goals.append((f'_should_compress agrees with _precond_dim for slot {k}', sc_t == (term(sh[1]) != size)))
        got = slots[bi]
        goals.append((f'block {bi}: one slot per axis', len(got) == r))
        for ax in range(min(r, len(got))):
          if ax in axes:
            goals.append((f'block {bi} axis {ax}: uses announced slot {bi * len(axes) + axes.index(ax)}', got[ax] == bi * len(axes) + axes.index(ax)))
          else:
            goals.append((f'block {bi} axis {ax}: not preconditioned', got[ax] is None))
      return goals

    def replay_fn(vals, nm):
      shape, bs = tuple(vals[:r]), vals[r]
      try:
        pc = ds.Preconditioner(jnp.zeros(shape), bs, 4096, False, ptype, cr)
        shapes = pc.shapes_for_preconditioners()
        g = jnp.ones(shape)
        stats = pc.updated_statistics_from_grad([jnp.zeros((s[0], s[0])) for s in shapes], g, 1.0, 1.0)
        for s_ in shapes:
          if cr and bool(ds._should_compress(cr, s_[0])) != (ds._precond_dim(cr, s_[0]) != s_[0]):
            return (f'_should_compress({cr}, {s_[0]}) = {bool(ds._should_compress(cr, s_[0]))} but _precond_dim({cr}, {s_[0]}) = '
                    f'{ds._precond_dim(cr, s_[0])}: the root routine and the stored layout disagree on whether a {s_[0]}x{s_[0]} preconditioner is compressed')
        if len(stats) != len(shapes):
          return f'shape {shape} block {bs} {t["ptype"]}: {len(shapes)} preconditioners announced but {len(stats)} statistics produced'
        for k, (s, st) in enumerate(zip(shapes, stats)):
          if st.shape[0] != s[0]:
            return f'shape {shape} block {bs} {t["ptype"]}: announced size {s} but statistic {k} has shape {st.shape}'
        if not cr:
          out = pc.preconditioned_grad(g, [jnp.eye(s[0]) for s in shapes])
          if out.shape != g.shape or not np.allclose(out, g):
            return f'shape {shape} block {bs} {t["ptype"]}: identity preconditioners change the gradient'
      except Exception as ex:
        return f'Preconditioner(shape={shape}, block={bs}, {t["ptype"]}, compression_rank={cr}) raises {type(ex).__name__}: {ex}'
      return None

    conclude(f'{tag}|all paths: announced shapes/count/order agree with the slots used per block and axis',
             run_paths(build, base, post), replay_fn)

  elif fn == 'tf_blocks_metadata':
    from precondition.tearfree import shampoo
    b = SymInt(z3.Int('block'))
    syms.append(b)
    base.append(z3.And(term(b) >= 2, term(b) <= B))
    # tearfree requires large dims divisible by the block size and at most two of them (validated in _init)
    base += [z3.Or(term(d) < term(b), term(d) % term(b) == 0) for d in dims]

    def post(meta):
      goals = []
      bb = term(b)
      large = [i for i in meta.large_axes]
      goals.append(('large axes are exactly those with dim >= block', z3.And([(term(dims[i]) >= bb) if i in large else (term(dims[i]) < bb) for i in range(r)])))
      goals.append(('num_blocks = product of dim // block over the large axes', term(meta.num_blocks) == zprod([term(dims[i]) / bb for i in large])))
      goals.append(('block sizes are min(dim, block)', z3.And([term(x) == z3.If(term(dims[i]) < bb, term(dims[i]), bb) for i, x in enumerate(meta.block_sizes)])))
      goals.append(('blocks axis is the first large axis (0 if none)', meta.blocks_axis == (min(large) if large else 0)))
      goals.append(('blocks x block volume = number of elements', term(meta.num_blocks) * zprod(meta.block_sizes) == zprod(dims)))
      return goals

    def replay_fn(vals, nm):
      shape, bs = vals[:r], vals[r]
      try:
        meta = shampoo._blocks_metadata(shampoo.Options(block_size=bs), shape, 'x')
      except Exception as ex:
        return f'_blocks_metadata(block={bs}, {shape}) raises {type(ex).__name__}: {ex}'
      if meta.num_blocks * math.prod(meta.block_sizes) != math.prod(shape):
        return f'_blocks_metadata(block={bs}, {shape}): {meta.num_blocks} blocks of {meta.block_sizes} do not cover the tensor'
      if meta.block_sizes != [min(d, bs) for d in shape]:
        return f'_blocks_metadata(block={bs}, {shape}): block sizes {meta.block_sizes}'
      return None

    conclude(f'{tag}|all paths: large axes, block count, block sizes, blocks axis',
             run_paths(lambda: shampoo._blocks_metadata(types.SimpleNamespace(block_size=b), list(dims), 'x'), base, post), replay_fn)

  elif fn == 'tf_derive_shapes':
    from precondition.tearfree import reshaper
    b = SymInt(z3.Int('block'))
    m = SymInt(z3.Int('merge'))
    syms += [b, m]
    base.append(z3.Or(term(b) == 0, z3.And(term(b) >= 2, term(b) <= B)))
    base.append(z3.And(term(m) >= 2, term(m) <= B * B))

    def post(s):
      goals = []
      bb = term(b)
      goals.append(('original shape recorded', z3.And([term(x) == term(d) for x, d in zip(s.original_shape, dims)] + [z3.BoolVal(len(s.original_shape) == r)])))
      goals.append(('merged shape has the same number of elements', zprod(s.merged_shape) == zprod(dims)))
      goals.append(('padded and merged have the same rank', len(s.padded_shape) == len(s.merged_shape)))
      for j, (p, q) in enumerate(zip(s.padded_shape, s.merged_shape)):
        p, q = term(p), term(q)
        goals.append((f'dim {j}: padded >= merged, by less than one block', z3.And(p >= q, z3.Implies(bb > 0, p - q < bb), z3.Implies(bb == 0, p == q))))
        goals.append((f'dim {j}: padded is a multiple of the block iff merged >= block', z3.Implies(bb > 0, z3.If(q >= bb, p % bb == 0, p == q))))
      return goals

    def replay_fn(vals, nm):
      shape, bs, mg = tuple(vals[:r]), vals[r], vals[r + 1]
      try:
        s = reshaper._derive_shapes(reshaper.Options(merge_dims=mg, block_size=bs), Shape(shape))
      except Exception as ex:
        return f'_derive_shapes(merge={mg}, block={bs}, {shape}) raises {type(ex).__name__}: {ex}'
      if math.prod(s.merged_shape) != math.prod(shape):
        return f'_derive_shapes(merge={mg}, block={bs}, {shape}): merged {s.merged_shape} changes the element count'
      for p, q in zip(s.padded_shape, s.merged_shape):
        if p < q or (bs and q >= bs and p % bs) or (bs and q < bs and p != q) or (bs and p - q >= bs) or (not bs and p != q):
          return f'_derive_shapes(merge={mg}, block={bs}, {shape}): merged {s.merged_shape} padded {s.padded_shape}'
      return None

    conclude(f'{tag}|all paths: merged/padded shapes',
             run_paths(lambda: reshaper._derive_shapes(types.SimpleNamespace(merge_dims=m, block_size=b), Shape(dims)), base, post), replay_fn)

  E = PE.E
  E.pc = []
  E.base = list(base)
  rr, _ = E._check([])
  results.append(dict(name=f'{tag}|twin: input constraints satisfiable and at least one path completed', kind='twin', queries=1,
                      status='sat' if rr == 'sat' and results and results[0].get('cases', 0) > 0 else 'unsat'))
  return dict(results=results, violations=viol, errors=[], configs=1,
              samples=[dict(task=t, outcome=results[0]['note'] if results else '')],
              extra=dict(paths_total=sum(r_.get('cases', 0) for r_ in results)))


# ----------------------------------------------------------------- (b) element order
def shapes_upto(max_rank, max_dim, max_elems=None):
  out = [()]
  for r in range(1, max_rank + 1):
    for sh in itertools.product(range(1, max_dim + 1), repeat=r):
      if max_elems and math.prod(sh) > max_elems:
        continue
      out.append(sh)
  return out


def b_tasks(tier):
  if tier == 'quick':
    shapes = shapes_upto(3, 4, 32)
    blocks = [1, 2, 3, 4]
  else:
    shapes = shapes_upto(3, 6, 96) + [s for s in shapes_upto(5, 3, 81) if len(s) >= 4]
    blocks = [1, 2, 3, 4, 5, 6]
  chunks = []
  n = 24 if tier == 'quick' else 64
  for k in range(n):
    chunks.append(dict(part='b', shapes=[list(s) for s in shapes[k::n]], blocks=blocks))
  # tearfree blockify needs larger shapes to have several blocks on two axes with axes in between:
  # every admissible shape of rank <= 4 with dims in {2,3,4,6} (quick: <= 150 elements)
  tf = []
  for r in (2, 3, 4):
    for sh in itertools.product((2, 3, 4, 6), repeat=r):
      if math.prod(sh) <= (150 if tier == 'quick' else 600):
        tf.append(sh)
  m = 8 if tier == 'quick' else 16
  for k in range(m):
    chunks.append(dict(part='b', only='blockify', shapes=[list(s) for s in tf[k::m]], blocks=[2, 3] if tier == 'quick' else [2, 3, 4, 6]))
  return chunks


def distinct_inputs(shape, name='x'):
  a = np.empty(shape, dtype=object)
  flat = a.reshape(-1) if a.ndim else None
  if a.ndim == 0:
    a[()] = z3.Real(f'{name}')
    return a
  for k in range(a.size):
    flat[k] = z3.Real(f'{name}_{k}')
  return a


def eval_fn(fn, *arrays):
  """evaluate the jaxpr of fn on object arrays"""
  ex = [jnp.zeros(np.shape(a), jnp.float32) for a in arrays]
  jp, out_shape = jax.make_jaxpr(fn, return_shape=True)(*ex)
  outs = Interp(Ctx()).eval(jp.jaxpr, jp.consts, *arrays)
  return jax.tree_util.tree_unflatten(jax.tree_util.tree_structure(out_shape), outs)


def b_work(t):
  from precondition import distributed_shampoo as ds
  from precondition.tearfree import shampoo, reshaper
  P = Prover(timeout_s=20, first_s=5.0)
  ncomp = 0
  fails = []

  def check(name, got, want, x, replay):
    nonlocal ncomp
    ncomp += 1
    got, want = toobj(got), toobj(want)
    if got.shape != want.shape:
      fails.append((name, f'shape {got.shape} vs {want.shape}', replay))
      return
    flat = [v for v in toobj(x).reshape(-1)]
    bad = [(a, b) for a, b in zip(got.reshape(-1), want.reshape(-1))
           if not ((R.is_z3(a) and R.is_z3(b) and a.eq(b)) or (not R.is_z3(a) and not R.is_z3(b) and a == b))]
    if not bad:
      return
    # the solver decides: can some entry differ when the inputs are pairwise distinct?
    s = z3.Solver()
    s.set('timeout', 20000)
    if len(flat) > 1:
      s.add(z3.Distinct(*flat))
    s.add(z3.Or([zl(a) != zl(b) for a, b in bad]))
    r = str(s.check())
    P.queries += 1
    if r != 'unsat':
      fails.append((name, f'{len(bad)} entries differ ({r})', replay))

  only = t.get('only')
  for shape in [tuple(s) for s in t['shapes']]:
    x = distinct_inputs(shape)
    for b in t['blocks']:
      # --- BlockPartitioner round trip and block contents
      if len(shape) >= 1 and not only:
        part = ds.BlockPartitioner(Shape(shape), b)
        blocks = eval_fn(lambda a: part.partition(a), x)
        back = eval_fn(lambda *bl: part.merge_partitions(list(bl)), *blocks)
        check(f'partition/merge round trip {shape} block {b}', back, x, x, dict(fn='partition', shape=shape, block=b))
        per = [[(s, min(s + b, d)) for s in range(0, d, b)] if 0 < b < d else [(0, d)] for d in shape]
        ref = [x[tuple(slice(a_, b_) for a_, b_ in blk)] for blk in itertools.product(*per)]
        if len(ref) != len(blocks):
          fails.append((f'partition {shape} block {b}', f'{len(blocks)} blocks, expected {len(ref)}', dict(fn='partition', shape=shape, block=b)))
        else:
          for k, (g_, w_) in enumerate(zip(blocks, ref)):
            check(f'partition {shape} block {b}: block {k} is the contiguous sub-tensor', g_, w_, x, dict(fn='partition', shape=shape, block=b))
            if any(s > b for s in np.shape(g_)) and b > 0 and any(0 < b < d for d in shape) and False:
              pass
      # --- identity preconditioning
      for ptype in (() if only else (ds.PreconditionerType.ALL, ds.PreconditionerType.INPUT, ds.PreconditionerType.OUTPUT)):
        for merge in (False, True):
          if len(shape) == 0 and merge:
            continue
          try:
            pc = ds.Preconditioner(jnp.zeros(shape), b, 4, merge, ptype, 0)
            shapes_p = pc.shapes_for_preconditioners()
            out = eval_fn(lambda a: pc.preconditioned_grad(a, [jnp.eye(s[0]) for s in shapes_p]), x)
            check(f'identity preconditioning {shape} block {b} {ptype.name} merge={merge}', out, x, x,
                  dict(fn='identity', shape=shape, block=b, ptype=ptype.name, merge=merge))
          except Exception as ex:
            fails.append((f'identity preconditioning {shape} block {b} {ptype.name} merge={merge}', f'raises {type(ex).__name__}: {ex}',
                          dict(fn='identity', shape=shape, block=b, ptype=ptype.name, merge=merge)))
      # --- reshaper merge / unmerge (block sizes >= 2 or 0)
      for bs in ([] if only else ([0] + ([b] if b >= 2 else []))):
        for mg in (2, 4):
          opt = reshaper.Options(merge_dims=mg, block_size=bs)
          p = {'w': jnp.zeros(shape)}
          try:
            mt, ut = reshaper.merge(opt), reshaper.unmerge(opt)
            merged = eval_fn(lambda a: mt.update({'w': a}, mt.init(p), p)[0]['w'], x)
            back = eval_fn(lambda a: ut.update({'w': a}, ut.init(p), p)[0]['w'], merged)
            check(f'reshaper unmerge(merge(x)) {shape} merge_dims {mg} block {bs}', back, x, x, dict(fn='reshaper', shape=shape, block=bs, merge=mg))
            mz = toobj(merged).reshape(-1)
            xs = {v.get_id() for v in x.reshape(-1)}
            extra = [v for v in mz if not (R.is_z3(v) and v.get_id() in xs)]
            if any(R.is_z3(v) or v != 0 for v in extra) or len(mz) - len(extra) != x.size:
              fails.append((f'reshaper padding {shape} merge_dims {mg} block {bs}', 'padding entries are not literal zeros / entries lost',
                            dict(fn='reshaper', shape=shape, block=bs, merge=mg)))
            ncomp += 1
          except Exception as ex:
            fails.append((f'reshaper {shape} merge_dims {mg} block {bs}', f'raises {type(ex).__name__}: {ex}', dict(fn='reshaper', shape=shape, block=bs, merge=mg)))
      # --- tearfree blockify / deblockify (admissible shapes only)
      if b >= 2 and len(shape) >= 1 and all(d != 1 for d in shape) and sum(d >= b for d in shape) <= 2 and all(d % b == 0 for d in shape if d >= b):
        meta = shampoo._blocks_metadata(shampoo.Options(block_size=b), shape, 'x')
        blk = eval_fn(lambda a: shampoo._blockify(a, meta), x)
        back = eval_fn(lambda a: shampoo._deblockify(a, meta), blk)
        check(f'tearfree deblockify(blockify(x)) {shape} block {b}', back, x, x, dict(fn='blockify', shape=shape, block=b))
        per = [[(s, s + b) for s in range(0, d, b)] if d >= b else [(0, d)] for d in shape]
        ref = [x[tuple(slice(a_, b_) for a_, b_ in bk)] for bk in itertools.product(*per)]
        blk = toobj(blk)
        if blk.shape[meta.blocks_axis] != len(ref):
          fails.append((f'tearfree blockify {shape} block {b}', 'wrong number of blocks', dict(fn='blockify', shape=shape, block=b)))
        else:
          for n, w_ in enumerate(ref):
            check(f'tearfree blockify {shape} block {b}: block {n} is the contiguous sub-tensor', np.take(blk, n, axis=meta.blocks_axis), w_, x,
                  dict(fn='blockify', shape=shape, block=b))
  results = [dict(name=f"(b) element order|{len(t['shapes'])} shapes x blocks {t['blocks']}: {ncomp} composites", kind='core',
                  status='unsat' if not fails else 'sat', queries=P.queries, cases=ncomp,
                  note=f'{ncomp} composites evaluated on distinct symbolic entries; {len(fails)} failing')]
  viol = []
  if fails:
    seen = set()
    st = 'spurious'
    for name, why, rp in fails[:6]:
      what = b_concrete(rp)
      if what:
        key = f"C06:{rp['fn']}"
        if key in seen:
          continue
        seen.add(key)
        path = write_replay(PID, dict(property=PID, task=dict(part='b'), replay=rp, observed=what))
        viol.append(dict(key=key, what=what, replay=path))
        st = 'violation'
    results[0]['status'] = st
    results[0]['note'] += '; first: ' + fails[0][0] + ' ' + fails[0][1]
  return dict(results=results, violations=viol, errors=[], configs=1,
              samples=[dict(part='b', shapes=t['shapes'][:3], composites=ncomp)], extra=dict(composites_total=ncomp))


def b_concrete(rp):
  """replay on index-valued tensors (arange), as the property suggests"""
  from precondition import distributed_shampoo as ds
  from precondition.tearfree import shampoo, reshaper
  shape, b = tuple(rp['shape']), rp['block']
  x = jnp.arange(1, math.prod(shape) + 1, dtype=jnp.float32).reshape(shape)
  try:
    if rp['fn'] == 'partition':
      part = ds.BlockPartitioner(x, b)
      blocks = part.partition(x)
      if not np.array_equal(np.asarray(part.merge_partitions(blocks)), np.asarray(x)):
        return f'BlockPartitioner {shape} block {b}: merge_partitions(partition(x)) != x'
      per = [[(s, min(s + b, d)) for s in range(0, d, b)] if 0 < b < d else [(0, d)] for d in shape]
      ref = [np.asarray(x)[tuple(slice(a_, b_) for a_, b_ in blk)] for blk in itertools.product(*per)]
      if len(ref) != len(blocks) or any(not np.array_equal(np.asarray(g), w) for g, w in zip(blocks, ref)):
        return f'BlockPartitioner {shape} block {b}: blocks are not the contiguous sub-tensors in row-major block order'
    elif rp['fn'] == 'identity':
      pc = ds.Preconditioner(x, b, 4, rp['merge'], getattr(ds.PreconditionerType, rp['ptype']), 0)
      out = pc.preconditioned_grad(x, [jnp.eye(s[0]) for s in pc.shapes_for_preconditioners()])
      if out.shape != x.shape or not np.array_equal(np.asarray(out), np.asarray(x)):
        return f'identity preconditioners change the gradient: shape {shape} block {b} {rp["ptype"]} merge={rp["merge"]}'
    elif rp['fn'] == 'reshaper':
      opt = reshaper.Options(merge_dims=rp['merge'], block_size=b)
      p = {'w': x}
      mt, ut = reshaper.merge(opt), reshaper.unmerge(opt)
      m = mt.update(p, mt.init(p), p)[0]
      back = ut.update(m, ut.init(p), p)[0]['w']
      if not np.array_equal(np.asarray(back), np.asarray(x)):
        return f'reshaper {shape} merge_dims {rp["merge"]} block {b}: unmerge(merge(x)) != x'
      mm = np.asarray(m['w']).reshape(-1)
      if sorted(mm[mm != 0].tolist()) != sorted(np.asarray(x).reshape(-1).tolist()):
        return f'reshaper {shape} merge_dims {rp["merge"]} block {b}: padding is not zero or entries are lost'
    elif rp['fn'] == 'blockify':
      meta = shampoo._blocks_metadata(shampoo.Options(block_size=b), shape, 'x')
      blk = shampoo._blockify(x, meta)
      if not np.array_equal(np.asarray(shampoo._deblockify(blk, meta)), np.asarray(x)):
        return f'tearfree {shape} block {b}: deblockify(blockify(x)) != x'
      per = [[(s, s + b) for s in range(0, d, b)] if d >= b else [(0, d)] for d in shape]
      ref = [np.asarray(x)[tuple(slice(a_, b_) for a_, b_ in bk)] for bk in itertools.product(*per)]
      for n, w_ in enumerate(ref):
        if not np.array_equal(np.take(np.asarray(blk), n, axis=meta.blocks_axis), w_):
          return f'tearfree {shape} block {b}: block {n} is not the contiguous sub-tensor'
  except Exception as ex:
    return f'{rp["fn"]} {shape} block {b} raises {type(ex).__name__}: {ex}'
  return None


def work(t):
  return a_work(t) if t['part'] == 'a' else b_work(t)


def replay(path):
  d = json.load(open(path))
  if d['task'].get('part') == 'b':
    what = b_concrete(d['replay'])
  else:
    # re-run the (a) task: its own replay function is closed over the task; re-derive by re-checking the task
    out = a_work(d['task'])
    what = '; '.join(v['what'] for v in out['violations']) or None
  if what:
    print(f'VIOLATION property={PID} replay={path}')
    print('  ' + what)
    return 1
  print('replay: bookkeeping consistent')
  return 0


def run(rep):
  rep.explanation = (
      '(a) Path-wise symbolic execution (forking integer proxies, z3 decides branch feasibility and every postcondition) of the REAL '
      'merge_small_dims, BlockPartitioner.__init__, Preconditioner.shapes_for_preconditioners/should_precondition_dims/'
      'exponent_for_preconditioner/_preconds_for_grad, _precond_dim, tearfree _blocks_metadata and reshaper _derive_shapes with all '
      'dimensions, block sizes and merge limits SYMBOLIC (1..B) at fixed rank: element count preserved, limits respected, order '
      'preserved, announced preconditioner count/order/sizes agree with the slots each block and axis uses, no internal exception. '
      '(b) For every concrete shape up to the bound the jaxprs of partition/merge_partitions, identity preconditioning, reshaper '
      'merge/unmerge and tearfree blockify/deblockify are evaluated on tensors of distinct symbolic entries; goals are term '
      'identities (solver consulted whenever two terms are not literally the same).')
  rep.encode('precondition.distributed_shampoo.merge_small_dims/BlockPartitioner/Preconditioner/_precond_dim/_should_compress', 'precondition/distributed_shampoo.py')
  rep.encode('precondition.tearfree.shampoo._blocks_metadata/_blockify/_deblockify', 'precondition/tearfree/shampoo.py')
  rep.encode('precondition.tearfree.reshaper._derive_shapes/merge/unmerge', 'precondition/tearfree/reshaper.py')
  ts = a_tasks(rep.tier) + b_tasks(rep.tier)
  rep.bounds = dict(a='rank 0..3 (quick) / 0..4 (thorough) with every dim, block size, merge limit symbolic in 1..B (B=5 quick, 8 thorough)',
                    b='all shapes of rank<=3 dims<=4 (<=32 elements) x blocks 1..4 (quick); rank<=3 dims<=6, rank 4-5 dims<=3 x blocks 1..6 (thorough)',
                    tasks=len(ts))
  rep.assumptions = ['(a) Preconditioner objects are built without __init__\'s jnp.reshape (shapes are symbolic); its bookkeeping methods are the real ones',
                     'tearfree shapes restricted to those _init accepts (no unit dims, <=2 large dims, divisible by the block)']
  rep.outside = ['ranks above the bound; dims above B', 'tensor contents other than order/loss (values are uninterpreted)']
  rep.extra['exhaustive_over_shapes_in_b'] = True
  run_tasks('vp.props.c06', 'work', ts, report=rep)
