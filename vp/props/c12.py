"""C12 — SM3 accumulators cover the true second moment.

Decided by: Real-domain symbolic evaluation of the jaxpr of the real
`sm3(...).update`, one inductive step from an arbitrary state carrying a ghost
tensor nu (hypothesis-free parametrisation acc_k[i] = max_{idx_k = i} nu[idx]).
"""
from fractions import Fraction
import itertools
import json
import time
import numpy as np
import z3
import jax
import jax.numpy as jnp

from ..symjax import Interp, Ctx, sym_like, toobj
from ..symjax import real as R
from ..harness import Traced, f32, f32z, concretize, differential
from ..symjax.concrete import ConcreteInterp
from ..solve import Prover, zl, model_value
from ..report import run_tasks, write_replay

PID = 'C12'
LR = 0.125
EPS = 2.0 ** -20


def configs(tier):
  shapes_q = [(3,), (2, 2), (2, 3), (2, 2, 2)]
  shapes_t = shapes_q + [(1,), (1, 3), (3, 2, 2), (2, 3, 2), (2, 2, 2, 2)]
  out = []
  shapes = shapes_q if tier == 'quick' else shapes_t
  for sh in shapes:
    for b2 in (1.0, 0.875):
      opts = [(0.0, 0.0, False)]
      if tier == 'quick':
        if sh == (2, 2):
          opts += [(0.75, 0.0, False), (0.0, 0.125, False), (0.0, 0.0, True)]
        if sh == (2, 2, 2):
          opts = [(0.0, 0.0, False)] if b2 == 1.0 else []
      else:
        opts += [(0.75, 0.0, False), (0.0, 0.125, False), (0.75, 0.125, False)]
        if len(sh) <= 2:
          opts += [(0.0, 0.0, True), (0.75, 0.125, True)]
      for b1, wd, norm in opts:
        out.append(dict(shape=sh, beta2=b2, beta1=b1, wd=wd, norm=norm))
  return out


def make_opt(cfg):
  from precondition import sm3
  return sm3.sm3(LR, beta1=cfg['beta1'], beta2=cfg['beta2'], diagonal_epsilon=EPS,
                 weight_decay=cfg['wd'], normalize_grads=cfg['norm'])


def slice_max(nu, k, i):
  """max over the slice idx_k == i of tensor nu (terms)"""
  idxs = [idx for idx in np.ndindex(nu.shape) if idx[k] == i]
  out = nu[idxs[0]]
  for idx in idxs[1:]:
    out = R.s_max(out, nu[idx])
  return out


def work(cfg):
  t0 = time.time()
  shape = tuple(cfg['shape'])
  rank = len(shape)
  opt = make_opt(cfg)
  params = {'w': jnp.zeros(shape, jnp.float32)}
  state = opt.init(params)
  tr = Traced(lambda g, s, p: opt.update(g, s, p), (params, state, params), name='a')
  tag = f"{'x'.join(map(str, shape))}|b2={cfg['beta2']}|b1={cfg['beta1']}|wd={cfg['wd']}|norm={int(cfg['norm'])}"
  errors = []
  # --- translator validation: concrete differential run
  bad = differential(tr, n=3, seed=1, gen=gen_pos, interp_factory=lambda: ConcreteInterp(Ctx()))
  if bad:
    errors.append(f'{tag}: differential mismatch evaluator vs real code: {bad[:1]}')
  # --- symbolic evaluation
  I = Interp(Ctx())
  leaves = tr.sym_inputs()
  g_, st_, p_ = tr.unflatten_in(leaves)
  g = g_['w']
  p = p_['w']
  count = st_.count.item()
  stats = st_.stats['w']
  mom_q, mom_bs = stats.diagonal_momentum.quantized, stats.diagonal_momentum.bucket_size
  # ghost parametrisation of the accumulators
  nu = sym_like('nu', np.zeros(shape, np.float32))
  S = sym_like('S', np.zeros(shape, np.float32))
  acc = []
  for k in range(rank):
    a = np.empty((shape[k],), dtype=object)
    for i in range(shape[k]):
      a[i] = slice_max(nu, k, i)
    acc.append(a)
  # substitute: inputs for diagonal_statistics are the ghost-defined terms
  new_stats = stats._replace(diagonal_statistics=acc)
  st2 = st_._replace(stats={'w': new_stats})
  leaves2 = jax.tree_util.tree_leaves((g_, st2, p_), is_leaf=lambda x: isinstance(x, np.ndarray))
  upd, new = tr.run(I, leaves2)
  u = upd['w']
  acc2 = new.stats['w'].diagonal_statistics
  b2 = f32(cfg['beta2'])
  w = f32(1.0 - cfg['beta2']) if cfg['beta2'] != 1.0 else Fraction(1)
  # reference quantities (written from the paper, over the evaluator's sqrt constructor)
  if cfg['norm']:
    ss = Fraction(0)
    for x in g.reshape(-1):
      ss = R.s_add(ss, R.s_mul(x, x))
    nrm = I.sqrt(ss)
    gh = np.empty(shape, dtype=object)
    for idx in np.ndindex(shape):
      gh[idx] = R.s_div(g[idx], R.s_add(nrm, f32(1e-16)))
  else:
    gh = g
  nu2 = np.empty(shape, dtype=object)
  S2 = np.empty(shape, dtype=object)
  for idx in np.ndindex(shape):
    m = acc[0][idx[0]]
    for k in range(1, rank):
      m = R.s_min(m, acc[k][idx[k]])
    g2 = R.s_mul(gh[idx], gh[idx])
    nu2[idx] = R.s_add(R.s_mul(b2, m), R.s_mul(w, g2))
    S2[idx] = R.s_add(R.s_mul(b2, S[idx]), R.s_mul(w, g2))
  inv = []
  for idx in np.ndindex(shape):
    inv += [nu[idx] >= S[idx], S[idx] >= 0]
  P = Prover(timeout_s=30, first_s=2.0)
  res = []
  # K: counter
  P.equal(f'{tag}|count+1', new.count, np.array(R.s_add(count, 1), dtype=object))
  # (a) Inv' (canonical witness nu'' = min_k acc'_k): the new accumulators are tight,
  #     acc'_k[i] = max over the slice of min_k' acc'_k'[idx_k'];  together with (c) this is Inv'.
  mn2 = np.empty(shape, dtype=object)
  for idx in np.ndindex(shape):
    m = acc2[0][idx[0]]
    for k in range(1, rank):
      m = R.s_min(m, acc2[k][idx[k]])
    mn2[idx] = m
  for k in range(rank):
    goals = []
    for i in range(shape[k]):
      idxs = [idx for idx in np.ndindex(shape) if idx[k] == i]
      goals.append(z3.Or([zl(acc2[k][i]) == zl(mn2[idx]) for idx in idxs]))
    P.prove(f"{tag}|inv-step axis{k}: acc' tight (= slice-max of min_k acc')", z3.And(goals), inv)
  # stronger than the property (documented formula), reported but not part of the verdict
  for k in range(rank):
    goals = []
    for i in range(shape[k]):
      idxs = [idx for idx in np.ndindex(shape) if idx[k] == i]
      goals.append(z3.And([zl(acc2[k][i]) >= zl(nu2[idx]) for idx in idxs]))
      goals.append(z3.Or([zl(acc2[k][i]) == zl(nu2[idx]) for idx in idxs]))
    P.prove(f"{tag}|doc axis{k}: acc' = slice-max(beta2*min acc + w g^2)", z3.And(goals), inv, kind='stretch')
  # (c) cover
  cov = []
  for idx in np.ndindex(shape):
    for k in range(rank):
      cov.append(zl(acc2[k][idx[k]]) >= zl(S2[idx]))
  P.prove(f'{tag}|cover: min_k acc\'_k >= S\'', z3.And(cov), inv)
  P.reach(f'{tag}|twin: assumptions satisfiable with strict slack',
          inv, [zl(acc2[0][0]) > zl(S2[(0,) * rank]), zl(g[(0,) * rank]) != 0])
  if cfg['beta2'] == 1.0:
    mono = [zl(acc2[k][i]) >= zl(acc[k][i]) for k in range(rank) for i in range(shape[k])]
    P.prove(f'{tag}|monotone: acc\' >= acc (beta2=1)', z3.And(mono), inv)
    P.reach(f'{tag}|twin: accumulators can strictly grow', inv, [zl(acc2[0][0]) > zl(acc[0][0])])
  if rank == 1:
    ref = np.empty(shape, dtype=object)
    for i in range(shape[0]):
      ref[i] = R.s_add(R.s_mul(b2, acc[0][i]), R.s_mul(w, R.s_mul(gh[i], gh[i])))
    P.equal(f'{tag}|rank-1: acc\' = beta2*acc + w g^2 exactly', acc2[0], ref, inv)
  # update formula / step size
  lr = f32(LR)
  eps = f32(EPS)
  b1 = f32(cfg['beta1'])
  w1 = f32(1.0 - cfg['beta1']) if cfg['beta1'] != 1.0 else Fraction(1)
  wd = f32(cfg['wd'])
  refu = np.empty(shape, dtype=object)
  for idx in np.ndindex(shape):
    pg = R.s_mul(gh[idx], R.s_div(1, I.sqrt(R.s_add(nu2[idx], eps))))
    old_m = R.s_mul(z3.ToReal(mom_q[idx]), mom_bs[idx[1:]])
    m2 = R.s_add(R.s_mul(b1, old_m), R.s_mul(w1, pg))
    if cfg['wd'] > 0:
      m2 = R.s_add(m2, R.s_mul(wd, p[idx]))
    refu[idx] = R.s_mul(R.s_neg(lr), m2)
  P.equal(f'{tag}|doc update = -lr*(beta1*mom + w1*g*rsqrt(nu\'+eps) + wd*p)', u, refu, inv, kind='stretch')
  if cfg['beta1'] == 0.0 and cfg['wd'] == 0.0:
    goals = []
    for idx in np.ndindex(shape):
      bound = R.s_mul(lr, R.s_mul(R.s_abs(gh[idx]), R.s_div(1, I.sqrt(R.s_add(S2[idx], eps)))))
      goals.append(R.s_abs(zl(u[idx])) <= zl(bound))
    for n_, gl in enumerate(goals):
      P.prove(f'{tag}|step size entry {n_}: |u| <= lr |g| rsqrt(S\'+eps)', gl, inv, timeout_s=30)
    if rank == 1:
      eq = []
      accS = [nu[i] == S[i] for i in range(shape[0])]
      for i in range(shape[0]):
        bound = R.s_mul(lr, R.s_mul(R.s_abs(gh[i]), R.s_div(1, I.sqrt(R.s_add(S2[i], eps)))))
        eq.append(R.s_abs(zl(u[i])) == zl(bound))
      P.prove(f'{tag}|rank-1 coincides with diagonal AdaGrad/RMSProp', z3.And(eq), inv + accS)
  out_res = []
  viol = []
  memo = {}
  for r in P.results:
    if r['status'] in ('sat', 'unknown') and r.get('kind', 'core') == 'core':
      if r['status'] == 'unknown':       # no model: one generic replay per task
        if 'unk' not in memo:
          memo['unk'] = confirm(cfg, r, tr, leaves, nu, S)
        v = memo['unk']
      else:
        v = confirm(cfg, r, tr, leaves, nu, S)
      if v is not None:
        r['status'] = 'violation'
        viol.append(v)
      elif r['status'] == 'sat':
        r['status'] = 'spurious'
        r['note'] = 'candidate counterexample did not reproduce on the real code'
    out_res.append(dict(r))
  return dict(results=out_res, violations=viol, errors=errors, configs=1,
              samples=[dict(config=cfg, jaxpr_eqns=tr.n_eqns, obligations=[r['name'] for r in out_res][:6])],
              extra=dict(jaxpr_eqns_total=tr.n_eqns, eval_s=round(time.time() - t0, 2)))


def gen_pos(rng, x, t):
  """inputs for the differential run: non-negative accumulators, signed gradients"""
  x = np.asarray(x)
  if np.issubdtype(x.dtype, np.floating):
    a = rng.randint(0, 9, size=x.shape) / 4.0
    if x.ndim != 1:
      a = a * rng.choice([-1.0, 1.0], size=x.shape)
    return a.astype(x.dtype)
  if x.dtype == np.int8:
    return rng.randint(-127, 128, size=x.shape).astype(np.int8)
  return rng.randint(0, 7, size=x.shape).astype(x.dtype)


# ------------------------------------------------------------------ replay
def check_concrete(cfg, g_hist, tol=1e-5):
  """Run the real optimizer from init over a gradient history and test the cover,
  monotonicity and step-size claims numerically.  Returns a description or None."""
  opt = make_opt(cfg)
  shape = tuple(cfg['shape'])
  rank = len(shape)
  params = {'w': jnp.zeros(shape, jnp.float32)}
  state = opt.init(params)
  S = np.zeros(shape, np.float64)
  b2 = float(np.float32(cfg['beta2']))
  w = float(np.float32(1.0 - cfg['beta2'])) if cfg['beta2'] != 1.0 else 1.0
  for t, g in enumerate(g_hist):
    g = np.asarray(g, np.float32).reshape(shape)
    gh = g.astype(np.float64)
    if cfg['norm']:
      gh = gh / (np.linalg.norm(gh) + 1e-16)
    old = [np.asarray(a, np.float64) for a in state.stats['w'].diagonal_statistics]
    upd, state = opt.update({'w': jnp.asarray(g)}, state, params)
    S = b2 * S + w * gh * gh
    acc = [np.asarray(a, np.float64) for a in state.stats['w'].diagonal_statistics]
    for idx in np.ndindex(shape):
      m = min(acc[k][idx[k]] for k in range(rank))
      if m < S[idx] * (1 - tol) - 1e-12:
        return f'step {t}: min accumulator {m} < exact second moment {S[idx]} at {idx}'
      if cfg['beta1'] == 0.0 and cfg['wd'] == 0.0:
        bound = LR * abs(gh[idx]) / np.sqrt(S[idx] + float(np.float32(EPS)))
        if abs(float(upd['w'][idx])) > bound * (1 + 1e-3) + 1e-9:
          return f'step {t}: |update| {abs(float(upd["w"][idx]))} > AdaGrad step {bound} at {idx}'
    if cfg['beta2'] == 1.0:
      for k in range(rank):
        if np.any(acc[k] < old[k] * (1 - tol) - 1e-12):
          return f'step {t}: accumulator {k} decreased {old[k]} -> {acc[k]}'
    if rank == 1:
      if not np.allclose(acc[0], S, rtol=1e-4, atol=1e-9):
        return f'step {t}: rank-1 accumulator {acc[0]} != exact {S}'
  return None


def check_injected(cfg, acc, S, g, tol=1e-5):
  """one real update from a state whose accumulators are `acc` (exact history sum S)"""
  opt = make_opt(cfg)
  shape = tuple(cfg['shape'])
  rank = len(shape)
  params = {'w': jnp.zeros(shape, jnp.float32)}
  state = opt.init(params)
  st = state.stats['w']._replace(diagonal_statistics=[jnp.asarray(a, jnp.float32) for a in acc])
  state = state._replace(stats={'w': st})
  g = np.asarray(g, np.float32).reshape(shape)
  gh = g.astype(np.float64)
  if cfg['norm']:
    gh = gh / (np.linalg.norm(gh) + 1e-16)
  b2 = float(np.float32(cfg['beta2']))
  w = float(np.float32(1.0 - cfg['beta2'])) if cfg['beta2'] != 1.0 else 1.0
  upd, new = opt.update({'w': jnp.asarray(g)}, state, params)
  S2 = b2 * np.asarray(S, np.float64) + w * gh * gh
  acc2 = [np.asarray(a, np.float64) for a in new.stats['w'].diagonal_statistics]
  old = [np.asarray(a, np.float32).astype(np.float64) for a in acc]
  mn = np.zeros(shape)
  for idx in np.ndindex(shape):
    mn[idx] = min(acc2[k][idx[k]] for k in range(rank))
    if mn[idx] < S2[idx] * (1 - tol) - 1e-12:
      return f'min accumulator {mn[idx]} < exact second moment {S2[idx]} at {idx}'
    if cfg['beta1'] == 0.0 and cfg['wd'] == 0.0:
      bound = LR * abs(gh[idx]) / np.sqrt(S2[idx] + float(np.float32(EPS)))
      if abs(float(upd['w'][idx])) > bound * (1 + 1e-3) + 1e-9:
        return f'|update| {abs(float(upd["w"][idx]))} > AdaGrad step {bound} at {idx}'
  for k in range(rank):
    sm = np.array([max(mn[idx] for idx in np.ndindex(shape) if idx[k] == i) for i in range(shape[k])])
    if not np.allclose(sm, acc2[k], rtol=1e-5, atol=1e-12):
      return f'accumulator {k} not tight: {acc2[k]} vs slice-max of min {sm}'
    if cfg['beta2'] == 1.0 and np.any(acc2[k] < old[k] * (1 - tol) - 1e-12):
      return f'accumulator {k} decreased {old[k]} -> {acc2[k]}'
  if rank == 1:
    ref = b2 * old[0] + w * gh * gh
    if not np.allclose(acc2[0], ref, rtol=1e-4, atol=1e-9):
      return f'rank-1 accumulator {acc2[0]} != beta2*acc + w g^2 = {ref}'
    if np.allclose(old[0], np.asarray(S, np.float64)) and cfg['beta1'] == 0.0 and cfg['wd'] == 0.0:
      bound = LR * np.abs(gh) / np.sqrt(S2 + float(np.float32(EPS)))
      if not np.allclose(np.abs(np.asarray(upd['w'], np.float64)), bound, rtol=1e-3, atol=1e-9):
        return f'rank-1 update {np.asarray(upd["w"])} != AdaGrad step {bound}'
  return None


def confirm(cfg, r, tr, leaves, nu, S):
  """turn a model into gradient histories and replay them on the real code"""
  m = r.get('model')
  shape = tuple(cfg['shape'])
  hists = []
  if m is not None:
    g_, st_, p_ = tr.unflatten_in(leaves)
    gm = np.array([float(model_value(m, x)) for x in g_['w'].reshape(-1)]).reshape(shape)
    num = np.array([float(model_value(m, x)) for x in nu.reshape(-1)]).reshape(shape)
    Sm = np.array([float(model_value(m, x)) for x in S.reshape(-1)]).reshape(shape)
    rank = len(shape)
    accm = [np.array([max(num[idx] for idx in np.ndindex(shape) if idx[k] == i) for i in range(shape[k])])
            for k in range(rank)]
    what = check_injected(cfg, accm, Sm, gm)
    if what is not None:
      path = write_replay(PID, dict(property=PID, config=cfg, mode='injected', acc=[a.tolist() for a in accm],
                                    S=Sm.tolist(), g=gm.tolist(), obligation=r['name'], observed=what))
      return dict(key=f'C12:{r["name"].split("|")[-1][:40]}', what=what, replay=path)
    w = float(np.float32(1.0 - cfg['beta2'])) if cfg['beta2'] != 1.0 else 1.0
    g1 = np.sqrt(np.maximum(Sm, 0) / w)
    hists.append([g1, gm])
    hists.append([np.sqrt(np.maximum(num, 0) / w), gm])
  rng = np.random.RandomState(0)
  for T in (2, 3, 4):
    for _ in range(6):
      hists.append([rng.randn(*shape) * 10.0 ** rng.randint(-2, 3, size=shape) for _ in range(T)])
  for h in hists:
    what = check_concrete(cfg, h)
    if what is not None:
      path = write_replay(PID, dict(property=PID, config=cfg, history=[np.asarray(x).tolist() for x in h],
                                    obligation=r['name'], observed=what))
      return dict(key=f'C12:{r["name"].split("|")[-1][:40]}', what=what, replay=path)
  return None


def replay(path):
  d = json.load(open(path))
  if d.get('mode') == 'injected':
    what = check_injected(d['config'], [np.asarray(a) for a in d['acc']], np.asarray(d['S']), np.asarray(d['g']))
  else:
    what = check_concrete(d['config'], [np.asarray(x) for x in d['history']])
  if what:
    print(f'VIOLATION property={PID} replay={path}')
    print('  ' + what)
    return 1
  print('replay: property holds on the stored history')
  return 0


def run(rep):
  rep.explanation = (
      'Bounded SMT verification of the real sm3.update jaxpr (Real domain): one inductive step from an '
      'arbitrary state parametrised by a ghost tensor nu (acc_k[i] = max over slice idx_k=i of nu, nu >= S >= 0); '
      'z3 shows for ALL gradients, ghost tensors, parameters, counters that the new accumulators are the slice '
      'maxima of nu\' = beta2*min_k acc_k + w g^2, that nu\' >= S\' (cover), monotonicity for beta2=1, exactness for '
      'rank 1, the update formula, and |update| <= AdaGrad/RMSProp step; histories of any length follow by induction '
      '(init gives nu=S=0, checked).')
  rep.encode('precondition.sm3.sm3.update_fn', 'precondition/sm3.py')
  rep.encode('precondition.sm3.sm3.init_fn', 'precondition/sm3.py')
  rep.encode('precondition.quantization_utils.QuantizedValue.to_float/quantize', 'precondition/quantization_utils.py')
  cfgs = configs(rep.tier)
  rep.bounds = dict(shapes=sorted({str(tuple(c['shape'])) for c in cfgs}), beta2=[1.0, 0.875], beta1=[0.0, 0.75],
                    weight_decay=[0.0, 0.125], normalize_grads=[False, True], steps='one inductive step (any history length)',
                    lr=LR, eps=EPS)
  rep.assumptions = ['exact real arithmetic (float rounding not modelled)',
                     'sqrt is an uninterpreted function with axioms y>=0, y*y=x instantiated per occurring term',
                     'pre-state satisfies the ghost invariant (proved inductive here; init satisfies it with nu=S=0)']
  rep.outside = ['float32 rounding of accumulators and updates', 'int8 momentum quantisation values (plumbing only; C11)',
                 'tensor ranks above 4 / dims above 3']
  # base case: init satisfies Inv with nu = S = 0 (concrete)
  from precondition import sm3
  for sh in sorted({tuple(c['shape']) for c in cfgs}):
    st = sm3.sm3(LR).init({'w': jnp.zeros(sh)})
    ok = all(np.all(np.asarray(a) == 0) for a in st.stats['w'].diagonal_statistics) and int(st.count) == 0
    rep.add([dict(name=f'{sh}|base: init has acc=0=slice-max(nu=0), S=0', status='unsat' if ok else 'sat',
                  queries=0, kind='core', note='concrete evaluation of init (no variables)')])
  run_tasks('vp.props.c12', 'work', cfgs, report=rep)
