"""Tearfree harness helpers (shared by C04/C05/C08/C09/C15)."""
import contextlib
import io
import numpy as np
import jax
import jax.numpy as jnp

from .harness import Traced

DEFAULTS = dict(
    second_order='shampoo', block_size=2, merge_dims=2, fs=1, fp=1, decay=0.875,
    sk_rank=1, sk_eps=0.0, sk_rel_eps=False, sk_freq=1,
    graft='NONE', graft_decay=0.875, start=0, graft_eps=2.0 ** -20, skip_rank1=True, skip_dim_gt=4096,
    ema=False, nesterov=True, momentum_decay=0.75, weight_decay=0.0, wd_after=True,
    lr=0.125, lr_schedule=False,
)


def full_cfg(cfg):
  c = dict(DEFAULTS)
  c.update(cfg)
  return c


def mods():
  from precondition.tearfree import optimizer, second_order, shampoo, sketchy, grafting, momentum, reshaper
  return optimizer, second_order, shampoo, sketchy, grafting, momentum, reshaper


def shampoo_options(c):
  _, _, shampoo, _, _, _, _ = mods()
  return shampoo.Options(block_size=c['block_size'], update_preconditioners_freq=c['fp'],
                         update_statistics_freq=c['fs'], second_moment_decay=c['decay'])


def sketchy_options(c):
  _, _, _, sketchy, _, _, _ = mods()
  return sketchy.Options(epsilon=c['sk_eps'], rank=c['sk_rank'], relative_epsilon=c['sk_rel_eps'],
                         second_moment_decay=c['decay'], update_freq=c['sk_freq'])


def second_order_options(c):
  _, second_order, _, _, _, _, _ = mods()
  if c['second_order'] == 'shampoo':
    return second_order.Options(merge_dims=c['merge_dims'], second_order_type=second_order.SecondOrderType.SHAMPOO,
                                shampoo_options=shampoo_options(c))
  return second_order.Options(merge_dims=c['merge_dims'], second_order_type=second_order.SecondOrderType.SKETCHY,
                              shampoo_options=None, sketchy_options=sketchy_options(c))


def grafting_options(c):
  _, _, _, _, grafting, _, _ = mods()
  gt = getattr(grafting.GraftingType, c['graft'])
  return grafting.Options(grafting_type=gt, second_moment_decay=c['graft_decay'] if c['graft'] in ('RMSPROP', 'ADAFACTOR') else 0.0,
                          start_preconditioning_step=c['start'], epsilon=c['graft_eps'],
                          skip_preconditioning_any_dim_gt=c['skip_dim_gt'], skip_preconditioning_rank1=c['skip_rank1'])


def momentum_options(c):
  _, _, _, _, _, momentum, _ = mods()
  return momentum.Options(ema=c['ema'], nesterov=c['nesterov'], momentum_decay=c['momentum_decay'],
                          weight_decay=c['weight_decay'], weight_decay_after_momentum=c['wd_after'])


def lr_schedule(t):
  return 0.125 / (1.0 + jnp.asarray(t, jnp.float32))


def make_tearfree(c, lr_arg=None):
  optimizer = mods()[0]
  opts = optimizer.TearfreeOptions(grafting_options=grafting_options(c), second_order_options=second_order_options(c),
                                   momentum_options=momentum_options(c))
  lr = lr_arg if lr_arg is not None else (lr_schedule if c['lr_schedule'] else c['lr'])
  return optimizer.tearfree(lr, opts)


def trace_tx(tx, params, name='a'):
  buf = io.StringIO()
  with contextlib.redirect_stdout(buf):
    state = tx.init(params)
  tr = Traced(lambda g, s, p: tx.update(g, s, p), (params, state, params), name=name)
  return tr, state


def quiet(fn, *a, **k):
  buf = io.StringIO()
  with contextlib.redirect_stdout(buf):
    return fn(*a, **k)
