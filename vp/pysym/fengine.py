"""E2 (float variant): lazy forking execution with float32 / int32 proxies.

Branches are NOT checked for feasibility while running (FP queries are expensive);
each completed path yields its path condition and result, and the harness asks the
solver one question per path: path condition /\\ not post.  An infeasible path makes
that query unsat, i.e. it is discharged vacuously (and counted as such).
"""
import builtins
import operator
import z3

F = z3.Float32()
RNE = z3.RNE()
BV = z3.BitVecSort(32)


class Abort(BaseException):
  pass


class Eng:
  """decision engine.  New decisions are checked for feasibility: first against a pool of concrete
  sample inputs (cheap), then - when no sample witnesses a branch - by the solver (`oracle`)."""

  def __init__(self):
    self.samples = []        # list of substitution lists [(var, FPVal), ...]
    self.oracle = None       # callable(list of z3 Bool) -> 'sat' | 'unsat' | 'unknown'
    self.oracle_calls = 0
    self.reset([])

  def reset(self, prefix):
    self.prefix = prefix
    self.pos = 0
    self.log = []            # (branch taken, other branch feasible?)
    self.pc = []
    self.alive = list(range(len(self.samples)))

  def _holds(self, cond, k):
    v = z3.simplify(z3.substitute(cond, *self.samples[k]))
    return z3.is_true(v)

  def decide(self, cond):
    sc = z3.simplify(cond)
    if z3.is_true(sc):
      return True
    if z3.is_false(sc):
      return False
    # keep the ORIGINAL term in the path condition: simplification would rewrite arithmetic
    # sub-terms, and the arithmetic abstraction relies on identical terms staying identical
    if len(self.log) > 300:
      raise Abort()
    t_set = [k for k in self.alive if self._holds(cond, k)]
    t_ids = set(t_set)
    f_set = [k for k in self.alive if k not in t_ids]
    if self.pos < len(self.prefix):
      b = self.prefix[self.pos]
      self.pos += 1
      self.log.append((b, False))
      self.pc.append(cond if b else z3.Not(cond))
      self.alive = t_set if b else f_set
      return b
    feas = {}
    for b, st in ((True, t_set), (False, f_set)):
      if st:
        feas[b] = True
      elif self.oracle is None:
        feas[b] = True
      else:
        self.oracle_calls += 1
        feas[b] = self.oracle(self.pc + [cond if b else z3.Not(cond)]) != 'unsat'
    if not feas[True] and not feas[False]:
      raise Abort()
    b = True if feas[True] else False
    self.pos += 1
    self.log.append((b, feas[not b]))
    self.pc.append(cond if b else z3.Not(cond))
    self.alive = t_set if b else f_set
    return b


E = Eng()


def explore(fn, maxpaths=100000):
  stack = [[]]
  n = 0
  while stack:
    pre = stack.pop()
    E.reset(pre)
    aborted = False
    try:
      res = ('ok', fn())
    except Abort:
      aborted = True     # this path is infeasible; earlier alternatives are still scheduled
    except Exception as ex:
      res = ('exc', ex)
    for i in range(len(E.log) - 1, len(pre) - 1, -1):
      b, alt = E.log[i]
      if alt:
        stack.append([x for x, _ in E.log[:i]] + [not b])
    if aborted:
      continue
    n += 1
    yield list(E.pc), res
    if n >= maxpaths:
      return


def fl(x):
  if isinstance(x, SymF):
    return x.t
  if isinstance(x, SymI):
    return z3.fpToFP(RNE, x.t, F)          # signed int -> float32 (RNE)
  return z3.FPVal(float(x), F)


def bv(x):
  return x.t if isinstance(x, SymI) else z3.BitVecVal(int(x), 32)


class SymB:
  def __init__(self, t):
    self.t = t

  def __bool__(self):
    return E.decide(self.t)


class SymF:
  """jnp float32 scalar"""

  def __init__(self, t):
    self.t = t

  def _b(op):
    return (lambda s, o: SymF(op(RNE, s.t, fl(o)))), (lambda s, o: SymF(op(RNE, fl(o), s.t)))

  __add__, __radd__ = _b(z3.fpAdd)
  __sub__, __rsub__ = _b(z3.fpSub)
  __mul__, __rmul__ = _b(z3.fpMul)
  __truediv__, __rtruediv__ = _b(z3.fpDiv)

  def __floordiv__(s, o):
    if not (isinstance(o, int) and o == 1):
      raise NotImplementedError('floor division by other than 1')
    return SymF(z3.fpRoundToIntegral(z3.RTN(), s.t))

  def _c(op):
    return lambda s, o: SymB(op(s.t, fl(o)))

  __lt__ = _c(z3.fpLT)
  __le__ = _c(z3.fpLEQ)
  __gt__ = _c(z3.fpGT)
  __ge__ = _c(z3.fpGEQ)

  def __eq__(s, o):
    # numeric equality of jnp scalars (IEEE: +0 == -0, NaN != NaN); comparison with a non-number is False as for the real scalars
    if o is None or isinstance(o, str):
      return False
    return SymB(z3.fpEQ(s.t, fl(o)))

  def __ne__(s, o):
    if o is None or isinstance(o, str):
      return True
    return SymB(z3.Not(z3.fpEQ(s.t, fl(o))))
  __hash__ = None

  def __bool__(s):
    return E.decide(z3.Not(z3.fpIsZero(s.t)))


class SymI:
  """python int, modelled as a signed 32-bit vector (values stay far below 2^31 in the harness bounds)"""

  def __init__(self, t):
    self.t = t

  def _b(op):
    return (lambda s, o: SymI(op(s.t, bv(o)))), (lambda s, o: SymI(op(bv(o), s.t)))

  __add__, __radd__ = _b(operator.add)
  __sub__, __rsub__ = _b(operator.sub)

  def __truediv__(s, o):
    return SymF(z3.fpDiv(RNE, fl(s), fl(o)))

  def __rtruediv__(s, o):
    return SymF(z3.fpDiv(RNE, fl(o), fl(s)))

  def __mul__(s, o):
    if isinstance(o, SymF):
      return SymF(z3.fpMul(RNE, fl(s), o.t))
    return SymI(s.t * bv(o))
  __rmul__ = __mul__

  def _c(op):
    return lambda s, o: SymB(op(s.t, bv(o)))

  __lt__ = _c(operator.lt)
  __le__ = _c(operator.le)
  __gt__ = _c(operator.gt)
  __ge__ = _c(operator.ge)
  __eq__ = _c(operator.eq)
  __ne__ = _c(operator.ne)
  __hash__ = None


def sym_int(x):
  if isinstance(x, SymF):
    return SymI(z3.fpToSBV(z3.RTZ(), x.t, BV))
  if isinstance(x, SymI):
    return x
  return builtins.int(x)


def sym_min(*args):
  if len(args) == 1:
    args = tuple(args[0])
  if any(isinstance(a, SymI) for a in args):
    acc = args[0]
    for b in args[1:]:
      acc = SymI(z3.If(bv(acc) <= bv(b), bv(acc), bv(b)))
    return acc
  return builtins.min(*args)


def sym_max(*args):
  if len(args) == 1:
    args = tuple(args[0])
  if any(isinstance(a, SymI) for a in args):
    acc = args[0]
    for b in args[1:]:
      acc = SymI(z3.If(bv(acc) >= bv(b), bv(acc), bv(b)))
    return acc
  return builtins.max(*args)


def sym_sum(xs, start=0):
  acc = start
  for x in xs:
    acc = acc + x
  return acc
