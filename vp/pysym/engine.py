"""E2: forking proxy execution of pure-Python code.

The REAL function object is called with proxy values (SymInt / SymBool) that build
z3 terms.  `bool(proxy)` asks the solver which branches are feasible under the
current path condition and follows a DFS schedule; the function is re-run once per
path (decision-prefix replay).  `__index__` / `__int__` concretise by forking over
the feasible values (finite because dimensions are bounded).
"""
import operator
import time
import z3


class Abort(BaseException):
  """path infeasible / abandoned (BaseException so that the code under test cannot swallow it)"""


class Engine:
  def __init__(self, timeout_ms=10000):
    self.solver = z3.Solver()
    self.solver.set('timeout', timeout_ms)
    self.base = []
    self.queries = 0
    self.solver_s = 0.0
    self.reset()

  def reset(self):
    self.prefix = []
    self.pos = 0
    self.log = []
    self.pc = []

  def _check(self, extra):
    self.solver.push()
    self.solver.add(self.base + self.pc + list(extra))
    t = time.time()
    r = str(self.solver.check())
    self.solver_s += time.time() - t
    self.queries += 1
    m = self.solver.model() if r == 'sat' else None
    self.solver.pop()
    return r, m

  def decide(self, cond):
    cond = z3.simplify(cond)
    if z3.is_true(cond):
      return True
    if z3.is_false(cond):
      return False
    if self.pos < len(self.prefix):
      b = self.prefix[self.pos]
      self.pos += 1
      self.pc.append(cond if b else z3.Not(cond))
      self.log.append((b, False))
      return b
    feas = []
    for b in (True, False):
      r, _ = self._check([cond if b else z3.Not(cond)])
      if r != 'unsat':
        feas.append(b)
    if not feas:
      raise Abort()
    b = feas[0]
    self.pos += 1
    self.log.append((b, len(feas) > 1))
    self.pc.append(cond if b else z3.Not(cond))
    return b

  def explore(self, fn, maxpaths=100000):
    """yield (path condition, ('ok', result) | ('exc', exception)) for every feasible path"""
    stack = [[]]
    n = 0
    while stack:
      pre = stack.pop()
      self.reset()
      self.prefix = pre
      aborted = False
      try:
        res = ('ok', fn())
      except Abort:
        aborted = True
      except Exception as ex:  # the code under test raised: a result to be judged by the harness
        res = ('exc', ex)
      for i in range(len(pre), len(self.log)):
        b, alt = self.log[i]
        if alt:
          stack.append([x for x, _ in self.log[:i]] + [not b])
      if aborted:
        continue
      n += 1
      yield list(self.pc), res
      if n >= maxpaths:
        return

  def valid(self, pc, goal):
    """is pc => goal valid?  returns ('unsat', None) if yes, ('sat', model) with a counterexample"""
    self.pc = list(pc)
    return self._check([z3.Not(goal)])


E = Engine()


def lift(x):
  if isinstance(x, z3.ExprRef):
    return x
  if isinstance(x, (SymInt, SymBool)):
    return x.t
  if isinstance(x, bool):
    return z3.BoolVal(x)
  if isinstance(x, int):
    return z3.IntVal(x)
  import numpy as np
  if isinstance(x, np.integer):
    return z3.IntVal(int(x))
  if isinstance(x, np.bool_):
    return z3.BoolVal(bool(x))
  raise TypeError(type(x))


def _isint(o):
  import numpy as np
  return isinstance(o, (int, SymInt, np.integer)) and not isinstance(o, bool)


class SymBool:
  def __init__(self, t):
    self.t = t

  def __bool__(self):
    return E.decide(self.t)

  def __and__(self, o):
    return SymBool(z3.And(self.t, lift(o)))
  __rand__ = __and__

  def __or__(self, o):
    return SymBool(z3.Or(self.t, lift(o)))
  __ror__ = __or__

  def __invert__(self):
    return SymBool(z3.Not(self.t))

  def __eq__(self, o):
    return SymBool(self.t == lift(o))

  __hash__ = None


class SymInt:
  """integer proxy.  Division/modulo by a divisor the path condition does not force
  positive is rejected (Abort would hide it): the harness assumes positive block sizes."""

  def __init__(self, t):
    self.t = t if isinstance(t, z3.ExprRef) else z3.IntVal(int(t))

  def _b(op):
    def f(self, o):
      if not _isint(o):
        return NotImplemented
      return SymInt(op(self.t, lift(o)))

    def r(self, o):
      if not _isint(o):
        return NotImplemented
      return SymInt(op(lift(o), self.t))
    return f, r

  __add__, __radd__ = _b(operator.add)
  __sub__, __rsub__ = _b(operator.sub)
  __mul__, __rmul__ = _b(operator.mul)
  __floordiv__, __rfloordiv__ = _b(lambda a, b: a / b)
  __mod__, __rmod__ = _b(operator.mod)

  def __truediv__(self, o):
    # true division only occurs inside numpy helpers (np.arange length computation): concretise
    return int(self) / int(o)

  def __rtruediv__(self, o):
    return int(o) / int(self)

  def __neg__(self):
    return SymInt(-self.t)

  def __pos__(self):
    return self

  def _c(op):
    def f(self, o):
      if not _isint(o):
        return NotImplemented
      return SymBool(op(self.t, lift(o)))
    return f

  __lt__ = _c(operator.lt)
  __le__ = _c(operator.le)
  __gt__ = _c(operator.gt)
  __ge__ = _c(operator.ge)
  __eq__ = _c(operator.eq)
  __ne__ = _c(operator.ne)
  __hash__ = None

  def __bool__(self):
    return E.decide(self.t != 0)

  LIMIT = 64

  def __index__(self):
    """concretise by forking over feasible values"""
    v = z3.simplify(self.t)
    if z3.is_int_value(v):
      return v.as_long()
    lo = 0
    while True:
      if E.decide(self.t == lo):
        return lo
      lo += 1
      if lo > SymInt.LIMIT:
        raise Abort()

  __int__ = __index__

  def __repr__(self):
    return f'SymInt({self.t})'


def sym_int(x):
  """replacement for the builtin int() inside modules executed under the engine"""
  if isinstance(x, SymInt):
    return x
  import builtins
  return builtins.int(x)


def term(x):
  """z3 term of a proxy / python int"""
  return lift(x)
