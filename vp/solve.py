"""Obligation runner: assumptions /\\ not goal -> solver; lazy case split on ite atoms.

Every verdict comes from the solver: `unsat` = discharged, `sat` = candidate
counterexample (believed only after replay on the real code), `unknown` /
timeout = undecided (never success).
"""
import os
import time
import numpy as np
import z3

from .symjax import real as R
from .symjax.real import is_z3, val

IntSort, RealSort = z3.IntSort(), z3.RealSort()


def zl(x, like=None):
  return x if is_z3(x) else R.tolit(x, like)


def walk(exprs):
  """iterate over all sub-terms (DAG, each once)"""
  seen = set()
  stack = [e for e in exprs if is_z3(e)]
  while stack:
    e = stack.pop()
    k = e.get_id()
    if k in seen:
      continue
    seen.add(k)
    yield e
    if z3.is_app(e):
      stack.extend(e.children())
    elif z3.is_quantifier(e):
      stack.append(e.body())


def ite_atoms(exprs):
  """conditions of if-then-else terms, in discovery order; boolean structure is
  flattened so that atoms are arithmetic predicates"""
  out = {}
  for e in walk(exprs):
    if z3.is_app(e) and e.decl().kind() == z3.Z3_OP_ITE:
      for a in _bool_atoms(e.arg(0)):
        out.setdefault(a.get_id(), a)
  return list(out.values())


def _bool_atoms(c):
  k = c.decl().kind() if z3.is_app(c) else None
  if k in (z3.Z3_OP_AND, z3.Z3_OP_OR, z3.Z3_OP_NOT):
    for ch in c.children():
      yield from _bool_atoms(ch)
  elif k == z3.Z3_OP_ITE and c.sort() == z3.BoolSort():
    for ch in c.children():
      yield from _bool_atoms(ch)
  elif z3.is_true(c) or z3.is_false(c):
    return
  else:
    yield c


def uf_axioms(exprs, max_p=8):
  """Axioms for the sqrt / pow uninterpreted functions, instantiated only for the
  applications that occur in `exprs` (global instantiation makes z3 give up)."""
  ax = []
  seen = set()
  todo = list(exprs)
  while todo:
    new = []
    for e in walk(todo):
      if not z3.is_app(e) or e.get_id() in seen:
        continue
      nm = e.decl().name()
      if nm == 'sqrt' and e.num_args() == 1:
        seen.add(e.get_id())
        a = e.arg(0)
        ax.append(e >= 0)
        ax.append(z3.Implies(a >= 0, e * e == a))
        new.append(a)
      elif nm == 'pow' and e.num_args() == 2:
        seen.add(e.get_id())
        x, y = e.arg(0), e.arg(1)
        vy = val(y)
        if vy is not None and vy != 0:
          from fractions import Fraction
          vy = Fraction(vy)
          if vy.numerator in (1, -1) and 1 <= vy.denominator <= max_p:
            p = vy.denominator
            yp = e
            for _ in range(p - 1):
              yp = yp * e
            if vy > 0:
              ax.append(z3.Implies(x >= 0, z3.And(e >= 0, yp == x)))
            else:
              ax.append(z3.Implies(x > 0, z3.And(e > 0, yp * x == 1)))
        new.append(x)
    todo = new
  return ax


_FP_ARITH = None


def abstract_fp_arith(exprs):
  """Replace every floating-point ARITHMETIC sub-term (add, sub, mul, div, fma, sqrt, rem,
  round-to-integral, int/real->fp conversions) by a fresh constant, the same constant for
  the same term.  A sound over-approximation for validity: the abstracted formula allows
  every behaviour of the original and more.  Models of the abstraction are candidates."""
  global _FP_ARITH
  if _FP_ARITH is None:
    _FP_ARITH = {getattr(z3, n) for n in ('Z3_OP_FPA_ADD', 'Z3_OP_FPA_SUB', 'Z3_OP_FPA_MUL', 'Z3_OP_FPA_DIV', 'Z3_OP_FPA_FMA',
                                         'Z3_OP_FPA_SQRT', 'Z3_OP_FPA_REM', 'Z3_OP_FPA_ROUND_TO_INTEGRAL', 'Z3_OP_FPA_TO_FP',
                                         'Z3_OP_FPA_TO_FP_UNSIGNED', 'Z3_OP_FPA_TO_SBV', 'Z3_OP_FPA_TO_UBV') if hasattr(z3, n)}
  fresh = {}
  seen = set()

  def collect(e):
    stack = [e]
    while stack:
      x = stack.pop()
      k = x.get_id()
      if k in seen or not z3.is_app(x):
        continue
      seen.add(k)
      if x.num_args() and x.decl().kind() in _FP_ARITH:
        if k not in fresh:
          fresh[k] = (x, z3.Const(f'fpcut!{len(fresh)}', x.sort()))
        continue          # maximal arithmetic sub-term: do not descend
      stack.extend(x.children())

  zs = [e for e in exprs if is_z3(e)]
  for e in zs:
    collect(e)
  pairs = list(fresh.values())
  out = [z3.substitute(e, *pairs) if (is_z3(e) and pairs) else e for e in exprs]
  return out, len(fresh)


class Result(dict):
  @property
  def ok(self):
    return self['status'] == 'unsat'


class Prover:
  def __init__(self, timeout_s=20.0, first_s=1.5, max_cases=4096, logic=None, fresh=False):
    # solver timeouts are wall-clock: on an oversubscribed machine (several checks at once) a query that needs
    # 10 s of CPU may not finish in 30 s of wall time and would be reported undecided; stretch them with the load
    try:
      scale = max(1.0, min(4.0, os.getloadavg()[0] / max(1, os.cpu_count() or 1)))
    except OSError:
      scale = 1.0
    self.load_scale = scale
    # a task whose obligations have already consumed `budget_s` of solver time (only seen on changed code, where many
    # obligations turn `sat`/`unknown` after long searches) gives the remaining obligations short timeouts: they are
    # then `unknown` -> replayed; on the unchanged tree every task stays far below the budget
    self.budget_s = 300.0 * scale
    self.t_created = time.time()
    self.timeout_s = timeout_s * scale
    self.first_s = first_s
    self.max_cases = max_cases
    self.queries = 0
    self.solver_s = 0.0
    self.results = []
    self.logic = logic
    self.fresh = fresh

  def _solver(self):
    s = z3.Solver() if self.logic is None else z3.SolverFor(self.logic)
    return s

  def _check(self, s, extra, timeout_s):
    if self.fresh:
      # a FRESH, never-pushed solver: after push/pop z3 uses its incremental core and loses the
      # nlsat-based pipeline that decides polynomial identities in milliseconds
      sol = self._solver()
      sol.add(s.assertions())
      sol.add(extra)
      sol.set('timeout', max(1, int(timeout_s * 1000)))
      t = time.time()
      r = str(sol.check())
      self.queries += 1
      self.solver_s += time.time() - t
      return r, (sol.model() if r == 'sat' else None)
    s.push()
    s.add(extra)
    s.set('timeout', max(1, int(timeout_s * 1000)))
    t = time.time()
    r = str(s.check())
    dt = time.time() - t
    self.queries += 1
    self.solver_s += dt
    m = s.model() if r == 'sat' else None
    s.pop()
    return r, m

  def prove(self, name, goal, assume=(), split=(), axioms=True, kind='core', timeout_s=None,
            nosplit=False, note=''):
    """Try to show assume => goal.  Returns a Result (also appended to self.results)."""
    t0 = time.time()
    q0, s0 = self.queries, self.solver_s
    timeout_s = (timeout_s * self.load_scale) if timeout_s else self.timeout_s
    if self.solver_s > self.budget_s:
      timeout_s = min(timeout_s, 5.0)
    assume = [a for a in assume if is_z3(a) or a is not True]
    if any(a is False for a in assume):
      res = Result(name=name, status='unsat', cases=0, note='assumption literally false', kind=kind)
      self.results.append(res)
      return res
    assume = [a for a in assume if is_z3(a)]
    if goal is True or (is_z3(goal) and z3.is_true(goal)):
      res = Result(name=name, status='unsat', cases=0, queries=0, solver_s=0.0, kind=kind,
                   note='goal is syntactically true (identical terms)')
      self.results.append(res)
      return res
    neg = z3.BoolVal(True) if goal is False else z3.Not(goal)
    s = self._solver()
    s.add(assume)
    ax = uf_axioms(list(assume) + [neg]) if axioms else []
    s.add(ax)
    # companion solver without the sqrt/pow axioms: used only to look for candidate
    # counterexamples when the axiomatised query is `unknown` (a model found there is a
    # candidate, believed only after replay; `unsat` there is sound - fewer assumptions).
    s2 = None
    if ax:
      s2 = self._solver()
      s2.add(assume)
    ncases = [0]
    model = [None]
    weak = [False]
    budget = max(timeout_s * 4, 45) if self.solver_s <= self.budget_s else 10.0
    deadline = time.time() + budget

    def both(neg_f, t_s):
      r, m = self._check(s, [neg_f], t_s)
      if r != 'unknown' or s2 is None:
        return r, m, False
      r2, m2 = self._check(s2, [neg_f], min(t_s, 5.0))
      if r2 == 'unsat':
        return 'unsat', None, False
      if r2 == 'sat':
        return 'sat', m2, True
      return 'unknown', None, False

    def rec(neg_f, pending_split, depth):
      ncases[0] += 1
      over = time.time() > deadline
      last = nosplit or depth >= 24 or ncases[0] >= self.max_cases or over
      r, m, wk = both(neg_f, (min(timeout_s, 5.0) if over else timeout_s) if last else min(self.first_s, timeout_s))
      if r == 'sat' and wk and not last:
        # a model found only without the sqrt/pow axioms: keep trying (longer timeout / case split)
        # before settling for it as a candidate
        r2, m2 = self._check(s, [neg_f], timeout_s)
        if r2 == 'unsat':
          return 'unsat'
        if r2 == 'sat':
          model[0] = m2
          return 'sat'
        if not ite_atoms([neg_f]):
          model[0] = m
          weak[0] = True
          return 'sat'
        r = 'unknown'
      if r == 'sat':
        model[0] = m
        weak[0] = wk
        return 'sat'
      if r == 'unsat':
        return 'unsat'
      if last:
        return 'unknown'
      # choose a split atom
      atom = None
      rest = list(pending_split)
      while rest and atom is None:
        a = rest.pop(0)
        if is_z3(a) and not z3.is_true(a) and not z3.is_false(a):
          atom = a
      if atom is None:
        cands = ite_atoms([neg_f])
        if not cands:
          cands = ite_atoms(s.assertions())
        if not cands:
          r, m, wk = both(neg_f, timeout_s)
          if r == 'sat':
            model[0] = m
            weak[0] = wk
          return r
        atom = cands[0]
      any_unknown = False
      for pol in (True, False):
        lit = atom if pol else z3.Not(atom)
        s.push()
        s.add(lit)
        if s2 is not None:
          s2.push()
          s2.add(lit)
        f2 = z3.simplify(z3.substitute(neg_f, (atom, z3.BoolVal(pol))))
        if z3.is_false(f2):
          sub = 'unsat'
        else:
          sub = rec(f2, rest, depth + 1)
        s.pop()
        if s2 is not None:
          s2.pop()
        if sub == 'sat':
          return 'sat'
        if sub != 'unsat':
          any_unknown = True
      return 'unknown' if any_unknown else 'unsat'

    status = rec(neg, list(split), 0)
    res = Result(name=name, status=status, cases=ncases[0], queries=self.queries - q0,
                 solver_s=round(self.solver_s - s0, 4), wall_s=round(time.time() - t0, 3), kind=kind)
    if note:
      res['note'] = note
    if status == 'sat':
      res['model'] = model[0]
      if weak[0]:
        res['note'] = (res.get('note', '') + ' candidate model found without sqrt/pow axioms').strip()
    self.results.append(res)
    return res

  def reach(self, name, assume=(), extra=(), kind='twin', timeout_s=None):
    """Reachability twin: the assumptions (plus `extra`) must be satisfiable."""
    r = self.prove(name, False, list(assume) + list(extra), kind=kind, nosplit=False, timeout_s=timeout_s)
    # for a twin 'sat' is the expected outcome
    r['expect'] = 'sat'
    return r

  # ----------------------------------------------------------------- helpers
  def equal(self, name, A, B, assume=(), split=(), kind='core', timeout_s=None, note='', force=False, poly=False):
    """all entries of A equal the corresponding entries of B (force: hand even literally
    identical terms to the solver)"""
    diffs = differing(A, B, keep_identical=force)
    if diffs is None:
      res = Result(name=name, status='sat', cases=0, queries=0, solver_s=0.0, kind=kind,
                   note='shape / constant mismatch', model=None)
      self.results.append(res)
      return res
    if not diffs:
      res = Result(name=name, status='unsat', cases=0, queries=0, solver_s=0.0, kind=kind,
                   note='terms syntactically identical')
      self.results.append(res)
      return res
    if poly and not assume:
      # polynomial identities: z3's rewriter in sum-of-monomials normal form decides many of them
      t = time.time()
      rest = []
      for a, b in diffs:
        d_ = z3.simplify(a - b, som=True, arith_lhs=True, sort_sums=True, flat=True)
        if not (z3.is_rational_value(d_) or z3.is_int_value(d_)) or R.val(d_) != 0:
          rest.append((a, b))
      self.queries += 1
      self.solver_s += time.time() - t
      if not rest:
        res = Result(name=name, status='unsat', cases=1, queries=1, solver_s=round(time.time() - t, 3), kind=kind,
                     note='polynomial identity: a - b rewrites to 0 in z3 sum-of-monomials normal form')
        self.results.append(res)
        return res
      diffs = rest
    goal = z3.And([a == b for a, b in diffs])
    return self.prove(name, goal, assume, split, kind=kind, timeout_s=timeout_s, note=note)


def _decided(s, atom, prover):
  return False


def differing(A, B, keep_identical=False):
  """list of (a, b) z3 pairs that are not syntactically identical; None if a
  concrete mismatch makes equality impossible"""
  A = np.asarray(A, dtype=object)
  B = np.asarray(B, dtype=object)
  if A.shape != B.shape:
    try:
      A, B = np.broadcast_arrays(A, B)
    except ValueError:
      return None
  out = []
  for a, b in zip(A.reshape(-1), B.reshape(-1)):
    if not is_z3(a) and not is_z3(b):
      if isinstance(a, bool) or isinstance(b, bool):
        if bool(a) != bool(b):
          return None
        continue
      if a != b:
        return None
      continue
    a2, b2 = R._pair(a, b)
    if not keep_identical:
      if a2.eq(b2):
        continue
      d = z3.simplify(a2 == b2)
      if z3.is_true(d):
        continue
    out.append((a2, b2))
  return out


def model_value(m, x, default=0):
  """python value (Fraction / int / bool) of term x in model m (completion on)"""
  from fractions import Fraction
  if not is_z3(x):
    return x
  v = m.eval(x, model_completion=True)
  if z3.is_true(v):
    return True
  if z3.is_false(v):
    return False
  if z3.is_int_value(v):
    return v.as_long()
  if z3.is_rational_value(v):
    return v.as_fraction()
  if z3.is_algebraic_value(v):
    return v.approx(30).as_fraction()
  return default
