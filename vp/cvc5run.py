"""python -m vp.cvc5run file.smt2 timeout_ms [var ...] : check-sat with the cvc5 wheel; prints
one line: sat|unsat|unknown, followed (when sat) by `name value` lines for the named constants."""
import sys
import cvc5


def main():
  path, tmo = sys.argv[1], int(sys.argv[2])
  names = sys.argv[3:]
  text = open(path).read()
  tm = cvc5.TermManager()
  slv = cvc5.Solver(tm)
  slv.setOption('tlimit-per', str(tmo))
  slv.setOption('produce-models', 'true')
  parser = cvc5.InputParser(slv)
  parser.setStringInput(cvc5.InputLanguage.SMT_LIB_2_6, text, 'query')
  sm = parser.getSymbolManager()
  res = None
  while True:
    cmd = parser.nextCommand()
    if cmd.isNull():
      break
    out = cmd.invoke(slv, sm)
    o = str(out).strip()
    if o in ('sat', 'unsat', 'unknown'):
      res = o
    elif o.startswith('(error'):
      res = 'unknown'
      break
  print(res or 'unknown')
  if res == 'sat' and names:
    for t in sm.getDeclaredTerms():
      if str(t) in names:
        print(str(t), slv.getValue(t))


if __name__ == '__main__':
  main()
