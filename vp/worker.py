"""python -m vp.worker in.json out.json : run one task of a check in this process"""
import json
import sys

from .report import _call


def main():
  with open(sys.argv[1]) as f:
    d = json.load(f)
  out = _call((d['mod'], d['fn'], d['task']))
  with open(sys.argv[2], 'w') as f:
    json.dump(out, f)


if __name__ == '__main__':
  main()
