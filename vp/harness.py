"""Shared harness helpers: trace a real function on a pytree, evaluate symbolically,
convert solver models into concrete inputs, differential (concrete) validation."""
from fractions import Fraction
import contextlib
import io
import numpy as np
import z3
import jax
import jax.numpy as jnp

from .symjax import Interp, Ctx, sym_like, toobj, is_sym, count_eqns
from .symjax import real as R
from .symjax.real import is_z3
from .solve import model_value


def f32(c):
  """exact rational value of the float32 nearest to c"""
  return Fraction(float(np.float32(c)))


def f32z(c):
  return R.rlit(f32(c))


class Traced:
  """The real function `fn(*pytrees)` traced on example arguments."""

  def __init__(self, fn, example_args, axis_env=None, name='f', out_like=None):
    self.fn = fn
    self.example = example_args
    self.flat, self.in_tree = jax.tree_util.tree_flatten(example_args)
    self.names = [name + jax.tree_util.keystr(k)
                  for k, _ in jax.tree_util.tree_flatten_with_path(example_args)[0]]
    flat_fn = lambda *xs: fn(*jax.tree_util.tree_unflatten(self.in_tree, xs))
    self.flat_fn = flat_fn
    buf = io.StringIO()
    with contextlib.redirect_stdout(buf):
      if axis_env:
        self.jaxpr = jax.make_jaxpr(flat_fn, axis_env=axis_env)(*self.flat)
        # output structure: trace once without collectives is impossible; derive from jaxpr + eval_shape under axis env
        self.out_tree = jax.tree_util.tree_structure(out_like) if out_like is not None else None
      else:
        self.jaxpr, out_shape = jax.make_jaxpr(flat_fn, return_shape=True)(*self.flat)
        self.out_tree = jax.tree_util.tree_structure(out_shape)
    self.n_eqns = count_eqns(self.jaxpr.jaxpr)

  def sym_inputs(self, prefix='in', pool=None, maker=None):
    """fresh variables for every input leaf; `pool` shares variables between traces by leaf name"""
    out = []
    for nm, x in zip(self.names, self.flat):
      key = (nm, tuple(np.shape(x)), str(np.asarray(x).dtype))
      if pool is not None and key in pool:
        out.append(pool[key])
        continue
      clean = ''.join(ch if ch.isalnum() else '_' for ch in nm)
      v = (maker or sym_like)(f'{prefix}{clean}', x)
      if pool is not None:
        pool[key] = v
      out.append(v)
    return out

  def unflatten_in(self, leaves):
    return jax.tree_util.tree_unflatten(self.in_tree, leaves)

  def unflatten_out(self, outs):
    if self.out_tree is not None:
      return jax.tree_util.tree_unflatten(self.out_tree, outs)
    return outs

  def run(self, interp, leaves):
    outs = interp.eval(self.jaxpr.jaxpr, self.jaxpr.consts, *leaves)
    if self.out_tree is not None:
      return jax.tree_util.tree_unflatten(self.out_tree, outs)
    return outs

  def run_concrete(self, leaves):
    buf = io.StringIO()
    with contextlib.redirect_stdout(buf):
      return self.flat_fn(*leaves)


def concretize(model, leaves, examples):
  """model -> list of numpy arrays with the dtypes of `examples`"""
  out = []
  for sym, ex in zip(leaves, examples):
    ex = np.asarray(ex)
    a = np.zeros(ex.shape, dtype=ex.dtype if ex.dtype != np.dtype('O') else np.float64)
    s = toobj(sym)
    for idx in np.ndindex(ex.shape):
      v = model_value(model, s[idx])
      if isinstance(v, bool):
        a[idx] = v
      elif isinstance(v, Fraction):
        a[idx] = float(v)
      else:
        a[idx] = v
    out.append(a)
  return out


def to_float(x):
  if isinstance(x, Fraction):
    return float(x)
  return x


def differential(traced, n=4, seed=0, rtol=1e-4, atol=1e-6, gen=None, interp_factory=None):
  """Concrete differential run: the evaluator in concrete-leaning mode (object arrays
  of exact rationals) against the real function.  Returns list of mismatches."""
  rng = np.random.RandomState(seed)
  bad = []
  for t in range(n):
    leaves = []
    for x in traced.flat:
      x = np.asarray(x)
      if gen is not None:
        leaves.append(gen(rng, x, t))
      elif np.issubdtype(x.dtype, np.floating):
        leaves.append((rng.randint(-8, 9, size=x.shape) / 4.0).astype(x.dtype))
      elif np.issubdtype(x.dtype, np.bool_):
        leaves.append(rng.randint(0, 2, size=x.shape).astype(bool))
      else:
        leaves.append(rng.randint(0, 7, size=x.shape).astype(x.dtype))
    want = jax.tree_util.tree_leaves(traced.run_concrete([jnp.asarray(l) for l in leaves]))
    I = interp_factory() if interp_factory else Interp(Ctx())
    got = I.eval(traced.jaxpr.jaxpr, traced.jaxpr.consts, *[toobj(l) for l in leaves])
    for k, (w, g) in enumerate(zip(want, got)):
      w = np.asarray(w, dtype=np.float64)
      gg = np.zeros(w.shape)
      go = toobj(g)
      for idx in np.ndindex(w.shape):
        v = go[idx]
        if is_z3(v):
          vv = R.val(z3.simplify(v))
          if vv is None:
            vv = float('nan')
          v = vv
        gg[idx] = float(v)
      if not np.allclose(w, gg, rtol=rtol, atol=atol, equal_nan=False):
        bad.append((t, k, w.tolist(), gg.tolist()))
  return bad
