"""in-process cvc5 check of an SMT-LIB2 text (used for many small feasibility queries)"""
import cvc5


def check(text, timeout_ms=5000):
  tm = cvc5.TermManager()
  slv = cvc5.Solver(tm)
  slv.setOption('tlimit-per', str(int(timeout_ms)))
  parser = cvc5.InputParser(slv)
  parser.setStringInput(cvc5.InputLanguage.SMT_LIB_2_6, text, 'q')
  sm = parser.getSymbolManager()
  res = 'unknown'
  while True:
    cmd = parser.nextCommand()
    if cmd.isNull():
      break
    o = str(cmd.invoke(slv, sm)).strip()
    if o in ('sat', 'unsat', 'unknown'):
      res = o
    elif o.startswith('(error'):
      return 'unknown'
  return res
