"""./check <ID> [--tier quick|thorough] [--replay PATH]"""
import argparse
import importlib
import os
import sys
import traceback

from .report import Report


def main():
  ap = argparse.ArgumentParser()
  ap.add_argument('pid')
  ap.add_argument('--tier', default=os.environ.get('VERIF_TIER', 'quick'), choices=['quick', 'thorough'])
  ap.add_argument('--replay', default=None)
  a = ap.parse_args()
  seed = int(os.environ.get('VERIF_SEED', '0') or 0)
  if a.pid == 'selftest':
    from . import selftest
    sys.exit(selftest.main())
  pid = a.pid.upper()
  try:
    mod = importlib.import_module(f'vp.props.{pid.lower()}')
  except ModuleNotFoundError:
    print(f'no check for {pid}', file=sys.stderr)
    sys.exit(2)
  if a.replay:
    sys.exit(mod.replay(a.replay))
  rep = Report(pid, a.tier, seed)
  try:
    mod.run(rep)
  except BaseException as ex:
    rep.errors.append(f'{type(ex).__name__}: {ex}\n' + traceback.format_exc()[-3000:])
  sys.exit(rep.finish())


if __name__ == '__main__':
  main()
