#!/bin/bash
# tools/verify_seed.sh <dir with patch.diff demo.py> : confirm in a scratch worktree that the change passes the
# existing tests and that the demonstration fails with it and passes without it.  Removes the worktree afterwards.
d=$1; W=/tmp/vseed_$$
git -C /repo worktree add -q --detach $W HEAD || exit 2
trap 'git -C /repo worktree remove --force '$W EXIT
cd $W && git apply $d/patch.diff || { echo "PATCH DOES NOT APPLY"; exit 2; }
echo "--- files changed:"; git diff --stat | tail -3
echo "--- test suite with the change:"; /venv/bin/python -m pytest -q -p no:cacheprovider --timeout=900 -n 8 2>&1 | tail -4 | cut -c1-150 | grep -E "passed|failed|FAILED"
echo "--- demo with the change (must fail):"; JAX_PLATFORMS=cpu timeout 900 /venv/bin/python $d/demo.py > /tmp/vseed_demo1_$$.out 2>&1; echo "exit=$?"; tail -3 /tmp/vseed_demo1_$$.out
git checkout -q -- .
echo "--- demo without the change (must pass):"; JAX_PLATFORMS=cpu timeout 900 /venv/bin/python $d/demo.py > /tmp/vseed_demo2_$$.out 2>&1; echo "exit=$?"; tail -2 /tmp/vseed_demo2_$$.out
