#!/bin/bash
# tools/benign.sh <patch.diff> [checks...] : apply a behaviour-preserving change to /repo, run the quick checks, undo.
# Every check must still exit 0 (no VIOLATION, no undecided obligation): a non-zero exit here is a false alarm of the machinery.
p=$1; shift
checks=${@:-C01 C02 C03 C04 C05 C06 C08 C09 C10 C11 C12 C13 C15 C16 C17}
cd /repo && git diff --quiet || { echo "/repo not clean"; exit 2; }
git -C /repo apply "$p" || { echo "PATCH DOES NOT APPLY"; exit 2; }
trap 'git -C /repo checkout -- .' EXIT
bad=0
for c in $checks; do
  out=$(cd /verif && ./check $c 2>&1); rc=$?
  echo "$c exit=$rc $(echo "$out" | grep -E '^\[' | tail -1 | cut -c1-160)"
  if [ $rc -ne 0 ]; then bad=1; echo "$out" | grep -E "VIOLATION|undecided:|twin not|harness error|Error|error:" | head -8 | cut -c1-300; fi
done
exit $bad
