#!/usr/bin/env python3
"""Regenerate MANIFEST.json from the table below (kept valid at all times)."""
import json, os
HERE = os.path.dirname(os.path.dirname(os.path.abspath(__file__)))
TECH = ('solver-based: symbolic evaluation of the real code (jaxpr / Python paths) to SMT; z3 and cvc5 decide each obligation within stated bounds; '
        'every counterexample (and every undecided core obligation) is replayed on the real, unstubbed code before a VIOLATION is printed; exit 2 = inconclusive. '
        'Evidence of detection power: /verif/seeded (42 independently seeded breaking changes, all reported as VIOLATION) and /verif/benign (36 behaviour-preserving '
        'refactorings, 112 check runs, all exit 0); see DESIGN.md sections 8.5 and 8.6.  Thorough tiers of C11 and C17 take about an hour each.')
CLAIMED = {
  'C12': dict(
    text='Bounded SMT verification (z3, exact real arithmetic) of the jaxpr of the real sm3.update: one inductive step from an arbitrary '
         'ghost-parametrised state shows cover (min accumulator >= exact decayed second moment), tightness, monotonicity for beta2=1, '
         'rank-1 exactness and the AdaGrad step bound for ALL gradients/states/steps at the listed shapes and hyper-parameters; '
         'counterexamples are replayed on the real optimizer before being reported.',
    note='Exact real arithmetic (no float rounding); sqrt as uninterpreted function with per-term axioms; shapes up to rank 4 with dims<=3; '
         'trusted: z3, jax.make_jaxpr, the vp/symjax evaluator (differentially validated against the real function on every run).',
    design='§3 C12', technique='jaxpr->SMT symbolic evaluation (Real domain), inductive step with ghost invariant, z3'),
  'C02': dict(
    text='Bounded SMT verification (z3, exact reals) of the jaxpr of the real distributed_shampoo(...).update: every output leaf is proved equal to an '
         'independent reference model of the documented blocked-Shampoo math for ALL states, gradients, parameters and step counters, per configuration x '
         'shape (pairwise option coverage); inverse roots are uninterpreted functions shared by code and reference. Counterexamples (and trace-time crashes of '
         'the real code) are replayed on the real, unstubbed optimizer over gradient histories from init before being reported. The sharded variant is checked the same way, '
         'with the update proved to use the preconditioners stored before the step (previous refresh).',
    note='Exact real arithmetic; root routine abstracted (padding-invariance assumed, body is C01); bounded set of configurations/shapes (rank<=3, dims<=5); '
         'trusted: z3, jax.make_jaxpr, evaluator (differentially validated on each run), the reference model in vp/props/ds_ref.py.',
    design='§3 C02', technique='jaxpr->SMT symbolic evaluation (Real domain) vs reference model, UF-abstracted roots, lazy case split, z3'),
  'C04': dict(
    text='Bounded SMT verification with a symbolic step counter (0..2^31-2): z3 proves on the real update jaxprs that statistics / preconditioners / metrics '
         'are term-identical off-schedule, that refreshed preconditioners are gate(ROOT(statistics after this step)), counter+1, and the warm-up contract '
         '(reference model and self-composition with start=never/start=0), for every (s,q,t0) of the grid; the learning-rate-scheduled interval (piecewise constant q_t >= 1, last piece '
         'unbounded), the sharded variant, Tearfree Shampoo / Sketchy and the Tearfree grafting wrapper are covered as well; each unchanged-claim has an on-step reachability twin.',
    note='Exact real arithmetic: bit-identity is proved as term identity (state passed through unchanged); counter overflow excluded; roots abstracted as UFs.',
    design='§3 C04', technique='jaxpr->SMT symbolic evaluation with symbolic step counter, z3 (LIA+NRA+UF)'),
  'C05': dict(
    text='Bounded SMT verification (z3, exact reals) of the grafting contract on the real update jaxprs: Distributed Shampoo is evaluated on one symbolic '
         'state with graft type X and with graft NONE, and z3 proves update = u0 * |closed-form graft step| / (|preconditioned grad| + eps) with a '
         'non-negative multiplier (hence same direction, transplanted norm, zero stays zero), and update = graft step before the start step and for '
         'excluded parameters, for all 6 grafting types and the full, low-rank-compressed, frequent-directions-sketched and int16-quantized preconditioner representations; Tearfree: grafting.graft around the real '
         'Shampoo/Sketchy transform versus the transform traced alone.',
    note='Exact reals; norm equality follows from the proved multiplier identity by homogeneity of the Euclidean norm; roots/eigh/svd (and the FD / low-rank root routines) abstracted as uninterpreted functions.',
    design='§3 C05', technique='jaxpr->SMT symbolic evaluation, self-composition (grafted vs un-grafted trace), z3'),
  'C08': dict(
    text='Bounded SMT verification of non-interference as 2-safety by self-composition on the real update jaxprs (Distributed Shampoo and Tearfree Shampoo): '
         'two symbolic runs share only the variables the property allows (block 0 / the parameter itself); z3 proves block 0\'s update and state, a block as a '
         'separate leaf, and a parameter with/without a companion of another shape are equal for all values; found (and after the fix guards) the shared '
         'eigenvalue cut-off of tearfree Shampoo.',
    note='Roots/eigh are uninterpreted functions of their own unpadded block (padding invariance assumed; body is C01); graft NONE for I1/I2 because the '
         'property exempts the parameter-level graft norm; one step from an arbitrary shared state.',
    design='§3 C08', technique='jaxpr->SMT symbolic evaluation, 2-safety self-composition, UF-abstracted roots, z3'),
  'C15': dict(
    text='Bounded SMT verification (z3, exact reals, symbolic learning rate) of the real tearfree(lr, options).update jaxpr against a reference of the '
         'documented composition: per-(axis, block) covariance update on the merged/zero-padded gradient, the decomposed matrix is that covariance, each root '
         'is the masked eigen-form with the cut-off relative to that block\'s own largest eigenvalue, and update = -lr(t)*momentum(weight decay(graft(...))) '
         'for all states/gradients/params/counters; exact linearity in lr.',
    note='eigh/svd/qr outputs are fresh variables per distinct input (free contract); exact reals; that the eigen-form equals the matrix inverse root needs '
         'orthonormality and is declined (stretch); the Sketchy sketch update itself is C09.',
    design='§3 C15', technique='jaxpr->SMT symbolic evaluation vs reference model, stubbed decompositions, z3'),
  'C03': dict(
    text='Bit-precise FP32 (QF_FP) verification of the acceptance gate on the real update jaxprs (replicated, pmap+int16-quantized, sharded): root outputs and '
         'reported errors are unconstrained float32 (NaN, +-Inf included), stored state and gradients arbitrary; z3 proves for all of them and every step index that '
         'each stored preconditioner is bit-for-bit the old one or a root whose error is finite and strictly below the threshold, and that preconditioners and all '
         'metric leaves are bit-identical off-schedule; found (now fixed) the arithmetic blend in the sharded path; violations are replayed by fault injection '
         '(NaN/Inf/huge/tiny gradients at random steps) on the real optimizers.  Finiteness clause, zero-gradient case (G4): from every finite state bounded by 2^40 with '
         'finite roots a zero gradient gives a finite update, on the full FP32 cone without abstraction (best effort: an undecided attempt is reported, not counted).',
    note='Root routine is a stub with contract "error is NaN or >= 0"; float arithmetic feeding the gate is abstracted to fresh values (over-approximation); '
         'finiteness of the update for NON-ZERO moderate gradients is outside the claim (needs magnitude bounds through the root); thresholds {0, 2^-100, 0.125, 3e38}.',
    design='§3 C03', technique='jaxpr->SMT symbolic evaluation in QF_FP (bit-precise float32), cone abstraction, z3'),
  'C13': dict(
    text='Bounded SMT verification of device-count invariance: the real update jaxpr traced under axis_env=[(batch, D)] is evaluated SPMD (one symbolic '
         'evaluator per device, axis_index/psum/all_gather with collective semantics) on replicated symbolic inputs and every device\'s updates and new state '
         'are proved equal to the D=1 evaluation for all values (full, int16-quantized, low-rank-compressed preconditioners; N mod D covering all residues); '
         'sharded variant: declared num_devices_for_pjit = D versus 1; generate_training_metrics on and off. Violations are replayed with real jax.pmap over forced host devices (benign histories and histories with a NaN / overflowing gradient for one parameter).',
    note='Roots are uninterpreted functions of the unpadded block (padding invariance assumed); D <= 3 quick / <= 5 thorough, N <= 9; sharded mode uses a '
         'one-device mesh (declared device count only drives padding).',
    design='§3 C13', technique='SPMD symbolic evaluation of the axis_env jaxpr to SMT, z3'),
  'C06': dict(
    text='(a) Path-wise symbolic execution of the REAL Python bookkeeping functions on integer proxies (every dimension, block size and merge limit symbolic in 1..B at '
         'fixed rank; z3 decides branch feasibility and each postcondition on every path): merge_small_dims, BlockPartitioner, Preconditioner slot/shape/exponent '
         'bookkeeping incl. INPUT/OUTPUT and compression, tearfree _blocks_metadata, reshaper _derive_shapes. (b) for every concrete shape up to the bound, the jaxprs '
         'of partition/merge_partitions, identity preconditioning, reshaper merge/unmerge, tearfree blockify/deblockify are evaluated on tensors of distinct symbolic '
         'entries and compared with the reference slices (solver consulted whenever terms are not literally identical). Counterexamples are replayed on arange tensors.',
    note='Rank is a structural bound (0..3 quick, 0..4 thorough), dims <= B (5 / 8); (b) enumerates shapes (a size bound like an unwinding bound) while contents are '
         'symbolic; Preconditioner objects in (a) are built without __init__ (its reshape needs concrete shapes).',
    design='§3 C06', technique='forking proxy symbolic execution of Python (z3 per path) + jaxpr->SMT index-term evaluation'),
  'C10': dict(
    text='Bounded SMT verification (exact reals) on the jaxprs of the real functions: pack/unpack round trips for all field values (no slot overlap), the compressed '
         'application path of Preconditioner.preconditioned_grad equals contraction with the dense matrix c(I - VV\') + V diag(e) V\' for all V, e, c and gradients of '
         'rank 1..3 on every axis, and the packed output of _low_rank_root (eigh stubbed) has the documented fields (|r| largest / smallest unpadded eigen-directions, '
         'max(e,ridge)^(-1/p), constant = mean of the remaining root values over the unpadded dimensions; padding and all-padding cases).',
    note='eigh outputs are fresh ascending values (free contract), pow uninterpreted, absolute ridge (power iteration not encoded); d <= 7, |r| <= 3; the claim that '
         'the denoted matrix inverts A+ridge I on the kept directions needs orthonormality and is declined.',
    design='§3 C10', technique='jaxpr->SMT symbolic evaluation (index terms + polynomial identities), stubbed eigh, z3'),
  'C09': dict(
    text='Bounded SMT verification (exact reals) of the frequent-directions step identities on the jaxprs of the three real step functions (tearfree Sketchy, OCO, '
         'Distributed Shampoo FD root) with svd/qr stubbed: SVD input satisfies M M^T = b V diag(l) V^T + G G^T, new eigenvalues s_i^2 - s_k^2 (clamped, >= 0), new '
         'directions = top-k singular vectors or zero, escaped mass t\' = b t + s_k^2, stored inverse roots (l\'+t\'+eps)^(-1/p), for all sketch states and gradients; the DS statistics factor (frequent_directions_update) has the Gram matrix of the gradient unfolded along the preconditioned axis for every axis of rank-2..4 blocks; '
         'found (now fixed) the sqrt(b) discount of the escaped mass in Sketchy. Replays iterate the real step over histories against the exact float64 covariance.',
    note='The PSD bracket itself is NOT a solver query (z3 unknown): it follows from the identities by the textbook FD lemma stated in evidence; SVD contract = ordering '
         '(+ unit-norm left vectors for DS); d <= 5, k <= 3; float safeguards of the DS routine outside the exact-SVD case not covered.',
    design='§3 C09', technique='jaxpr->SMT symbolic evaluation with contract-stubbed SVD/QR, z3 (NRA)'),
  'C16': dict(
    text='Bounded SMT verification (exact reals, delta and lr symbolic) of one inductive step of each real OCO update: OGD / diagonal AdaGrad closed forms, sketched '
         'methods keep the last sketch row zero, e\'^2 = s^2 - rho^2, alpha\' = alpha + factor rho^2 (S-AdaGrad: alpha = delta + escaped mass, unchanged when rho = 0), '
         'and each step equals its documented eigen-form over the SVD outputs.',
    note='The clause "lossless S-AdaGrad equals full-matrix AdaGrad" is declined as a solver claim (matrix-function identity modulo orthonormality: z3 unknown); it is '
         'only exercised numerically in replays. SVD stub contract: ordering; dimension <= 4, sketch <= 3.',
    design='§3 C16', technique='jaxpr->SMT symbolic evaluation, inductive step, stubbed SVD, z3'),
  'C01': dict(
    text='Bounded SMT verification (exact reals) of the algebraic skeleton of the inverse p-th root routines on their real jaxprs: every size traces (found, now fixed, '
         'the 1x1 crash); one evaluation of the coupled-Newton loop BODY from an arbitrary invariant state re-establishes M = H^p D, symmetry, commutation, exactly-zero '
         'padding and error = max|M - I_masked| (so in exact arithmetic the reported error EQUALS the residual at loop exit); the initial carry satisfies the invariant; '
         'the convergence blend returns H or the old H and the reported error bounds the residual of what is returned; the eigh variant is symmetric; one power-iteration '
         'step gives a Rayleigh quotient below every upper bound of the spectrum; all-padding input returns exactly 0; for the LOBPCG-deflated variant (eigenpair routine and '
         'loops cut to arbitrary outputs) the reported error and diagnostics are max|X^p(A+ridge I)-I| of the returned X against the original matrix. A clamp that is redundant in exact arithmetic (eigenvalues below the ridge) is covered only by the float replay (rank-1 statistics, ridge 1e-10 / 1e-30), which is also run when symbolic evaluation stops with an exception.',
    note='ONLY the exact-arithmetic part of the property: rounding slack proportional to the condition number, convergence within 100 iterations, the quality of LOBPCG eigenpairs and '
         'dtype are declined (floating-point iterative linear algebra); n <= 3, p <= 4; X^p(A+dI)=I for the eigh variant is stretch (z3 unknown).',
    design='§3 C01', technique='jaxpr->SMT symbolic evaluation of loop bodies (inductive invariant), z3 nlsat'),
  'C11': dict(
    text='Bit-precise QF_FP verification (float32 with flush-to-zero as XLA:CPU executes; cvc5 + z3 raced per query) of the jaxprs of the real QuantizedValue.quantize / '
         'to_float for EVERY finite float32 column of m rows: stored integers within +-127 / +-32767 (no wrap), round trip within bucket/2 + 2 ulp(maxabs), zeros and the '
         'extracted diagonal exact, re-quantisation reproduces the same integers; with extract_diagonal the off-diagonal entries of an arbitrary (not necessarily symmetric) 2x2 matrix never wrap (Q1diag); XLA:CPU lowers divisions by constants / broadcast operands as reciprocal multiplications '
         '(found by the translator validation V0: 1 ulp), so every such division is modelled as either lowering and each obligation holds for all assignments; V0 compares the '
         'encoding with the real code bit for bit (op-by-op and jitted) on boundary and random inputs; four genuine boundary defects (max-abs = FLT_MAX overflows to inf; max-abs below 127*2^-126 flushes to 0; '
         'subnormal diagonal entries flushed; a subnormal entry next to a bucket below 2^-125 flushed) are recorded as known findings, excluded by assumption and re-confirmed by replay on every run.',
    note='m <= 2 rows per column in the quick tier (3 thorough); half-bucket and re-quantisation under extract_diagonal are attempted (thorough, stretch) but not claimed; bfloat16 mode not encoded; columns independent (the jaxpr reduces over axis 0 only); no FMA contraction.',
    design='§3 C11', technique='jaxpr->SMT in QF_FP (bit-precise float32 with FTZ), cvc5/z3 portfolio'),
  'C17': dict(
    text='Path-wise symbolic execution of the REAL create_redist_dict (its source executed with int/min/max/sum shadowed by proxy-aware versions) with bit-precise float32 '
         'scores: per explored path one QF_BVFP query (float arithmetic first abstracted to fresh values, then bit-precise) decides whether some scores make it raise, assign '
         'a rank outside [1, dim] or exceed group size x base rank; found (now fixed) the leftover-loop over-allocation and a float-cancellation assertion failure; models are '
         'replayed on the real function.',
    note='One group of n <= 2 (thorough 3) equal-dimension axes with all scores free, 3-4 axes (thorough 5) with tied / all-zero score patterns, dims <= 16, plus layers with two axes forming 2-3 groups of different dimension; scoring rules and checkpoint I/O stubbed; branch feasibility during exploration is decided by '
         'concrete witnesses or cvc5 (unknown = explored).',
    design='§3 C17', technique='forking proxy symbolic execution of Python with QF_BVFP path queries (cvc5)'),
}
NA = {
  'C07': 'decided by tracing each configuration (abstract evaluation), no input/step/state variable is left for a solver to range over; '
         'using the solver would only enumerate concrete configurations. Solver-shaped fragments are claimed under C06 and C01.',
  'C14': 'msgpack serialization (compiled extension) and bit-identity of XLA float execution cannot be encoded for an SMT solver.',
}
PENDING = 'check not built yet in this revision (planned, see DESIGN.md §3)'
ALL = [f'C{i:02d}' for i in range(1, 18)]
checks = []
for pid, c in CLAIMED.items():
  checks.append(dict(
    property_id=pid, quick_cmd=f'./check {pid} --tier quick', thorough_cmd=f'./check {pid} --tier thorough',
    evidence_file=f'/verif/evidence/{pid}.json', replay_cmd_template=f'./check {pid} --replay {{path}}',
    engine='symjax' if pid not in ('C06', 'C17') else 'pysym',
    level_claimed=dict(category='other', text=c['text'], design_ref=c['design']),
    level_note=c['note'], technique=c['technique']))
na = [dict(property_id=p, reason=NA.get(p, PENDING)) for p in ALL if p not in CLAIMED]
m = dict(
  version=1,
  setup_cmd='./setup.sh',
  hooks=dict(guard='PRECONDITION_VERIF', enable='no source hooks are needed: checks import /repo as is (PRECONDITION_VERIF=1 is exported by ./check for uniformity)',
             baseline_off_cmd='cd /repo && /venv/bin/python -m pytest -ra -q -p no:cacheprovider --timeout=900 --continue-on-collection-errors',
             source_commits=[], add_only=True),
  engines=[
    dict(name='symjax', path='vp/symjax', serves_properties=[p for p in CLAIMED if p not in ('C06', 'C17')],
         kind_free_text='jaxpr -> SMT symbolic evaluator for the real JAX code (Real and FP32 domains), z3/cvc5 back ends'),
    dict(name='pysym', path='vp/pysym', serves_properties=[p for p in CLAIMED if p in ('C06', 'C17')],
         kind_free_text='forking proxy executor for pure-Python functions (path-wise symbolic execution with z3)'),
  ],
  checks=checks,
  notes=TECH,
  not_applicable=na,
)
json.dump(m, open(os.path.join(HERE, 'MANIFEST.json'), 'w'), indent=1)
print('claimed', sorted(CLAIMED), 'n/a', [x['property_id'] for x in na])
