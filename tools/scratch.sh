#!/bin/bash
# tools/scratch.sh <patch.diff> <check-id> [tier] : run one check against a scratch worktree of /repo with the patch applied
# (leaves /repo and /verif/evidence untouched; scratch tree and outputs under $TMPDIR are removed afterwards).
p=$(readlink -f "$1"); chk=$2; tier=${3:-quick}
W=$(mktemp -d /tmp/vp_scratch_XXXXXX); rmdir $W
git -C /repo worktree add -q --detach $W HEAD || exit 2
O=$(mktemp -d /tmp/vp_out_XXXXXX)
trap 'git -C /repo worktree remove --force '$W'; rm -rf '$O EXIT
( cd $W && git apply "$p" ) || { echo "PATCH DOES NOT APPLY"; exit 2; }
out=$(cd /verif && VP_REPO=$W VP_OUT=$O ./check $chk --tier $tier 2>&1); rc=$?
echo "$out" | grep -E "VIOLATION|KNOWN-FINDING|^\[|undecided:|twin not|harness error" | cut -c1-220 | head -10
echo "patch=$(basename $(dirname $p))/$(basename $p) check=$chk tier=$tier exit=$rc"
exit $rc
