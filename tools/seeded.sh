#!/bin/bash
# tools/seeded.sh <seeded-id> [check-id] [tier] : apply /verif/seeded/<id>/patch.diff to /repo, run the check, always revert.
set -u
id=$1; chk=${2:-$(python3 -c "import json;print(json.load(open('/verif/seeded/$id/meta.json'))['property'])")}; tier=${3:-quick}
cd /repo || exit 2
if [ -n "$(git status --porcelain)" ]; then echo "repo not clean"; exit 2; fi
git apply /verif/seeded/$id/patch.diff || { echo "patch does not apply"; exit 2; }
trap 'git -C /repo checkout -- . ' EXIT
cd /verif && ./check $chk --tier $tier > /tmp/seeded_$id.out 2>&1; rc=$?
grep -E "VIOLATION|KNOWN-FINDING|^\[" /tmp/seeded_$id.out | cut -c1-200 | head -8
echo "seeded=$id check=$chk exit=$rc"
