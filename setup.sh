#!/bin/bash
# Build the overlay venv the checks run in: /venv's packages (jax, optax, flax, the
# repo's own deps) + z3-solver and cvc5 from the offline wheelhouse.  Idempotent.
set -e
cd "$(dirname "$0")"
V=/verif/.venv
if [ -x $V/bin/python ] && $V/bin/python -c "import z3, cvc5, jax" 2>/dev/null; then exit 0; fi
# several checks may be started at once on a fresh copy: build the venv under a lock, once
exec 9>/verif/.setup.lock
flock 9
if [ -x $V/bin/python ] && $V/bin/python -c "import z3, cvc5, jax" 2>/dev/null; then exit 0; fi
rm -rf $V
/venv/bin/python -m venv $V
SP=$($V/bin/python -c "import site; print(site.getsitepackages()[0])")
printf '/venv/lib/python3.12/site-packages\n' > $SP/_overlay.pth
PIP_NO_INDEX=1 $V/bin/pip install -q --no-index --find-links /opt/veriftools/wheels z3-solver cvc5 >/dev/null
$V/bin/python -c "import z3, cvc5, jax; print('verif venv ok: z3', z3.get_version_string(), 'jax', jax.__version__)"
